"""C15 — after successful lowering no backend crashes: panic-family arms selected by an HIR shape, triaged."""
import json
import os
import re
import common as C
import tables as T

SCOPE_CORE = re.compile(r"^diplomat_core::hir::(methods|types|defs|paths|lifetimes|ty_position|primitives)\b")
EXCLUDE = re.compile(r"::tests?::|::test_|diplomat_tool::config::|^diplomat_tool::[a-z_0-9]+$")  # crate-root fns of the tool are the driver (paths, IO), not HIR consumers


def in_scope(path):
    if EXCLUDE.search(path):
        return False
    return path.startswith("diplomat_tool::") or SCOPE_CORE.search(path) is not None


def enum_of(sadt):
    return bool(sadt) and (sadt.startswith("diplomat_core::hir::") or sadt.startswith("diplomat_tool::") or sadt.startswith("diplomat_core::ast::"))


NARROWS = {}      # crate -> context.Narrow of the last inventory (call-site index)
COVERED = set()   # (fn path, line) of panic-family macros judged by the arm inventory (selected by a real variant, or pure non_exhaustive absorbers)
PANIC_MACROS = ("panic", "unreachable", "unimplemented", "todo", "assert", "assert_eq", "assert_ne")


def inventory(units, adts):
    """-> list of dict(fn, enum, values, macro, msg, loc)"""
    out = []
    COVERED.clear()
    import context
    for unit in units:
        nar = NARROWS[unit.crate] = context.Narrow(unit, adts)
        for f in unit.fn_list:
            if f.get("dk") == "Closure" or "hir" not in f:
                continue
            path = C.norm_path(f["path"])
            if not in_scope(path) or f.get("exp"):
                continue
            for n, cstack in C.with_conditions(C.fn_body(f)):
                mt = None
                if n.get("k") == "match" and (n.get("sadt") or "").endswith("option::Option"):
                    # `match opt { None => .., Some(P1) => .., Some(_) => .. }` selects by the payload's variants: view it as the match on the payload
                    subs = []
                    for a_ in n["arms"]:
                        p_ = a_["pat"]
                        if p_.get("k") == "variant" and p_.get("v") == "Some" and len(p_.get("sub") or []) == 1:
                            subs.append({"pat": p_["sub"][0], "g": a_.get("g"), "b": a_["b"]})
                        elif p_.get("k") in ("wild", "bind"):
                            subs.append({"pat": {"k": "wild"}, "g": a_.get("g"), "b": a_["b"]})
                    adt_ = next((x_["pat"].get("adt") for x_ in subs if x_["pat"].get("k") == "variant"), None)
                    if adt_ and enum_of(adt_):
                        s0 = C.strip(n["s"])
                        n = {"k": "match", "sadt": adt_, "ln": n.get("ln"), "arms": subs,
                             "s": s0 if s0.get("k") != "mcall" else {"k": "mcall", "m": "unwrap", "recv": n["s"], "a": []}}
                if n.get("k") == "match" and C.strip(n.get("s") or {}).get("k") == "tup" and all(isinstance(a_["pat"], dict) and a_["pat"].get("k") in ("tuple", "wild", "bind") for a_ in n["arms"]):
                    # `match (ctx, abi) { (Ctx::A, _) => panic!(..), (Ctx::B, Abi::X) => .. }`: an arm that constrains ONE component (the others `_`) is selected by that
                    # component's variants -- view the match as the match on that component (arms that also constrain another component become conditional)
                    elems = C.strip(n["s"])["a"]
                    for a_ in n["arms"]:
                        if not C.panic_macro_of(a_["b"]) or a_["pat"].get("k") != "tuple":
                            continue
                        subs_ = a_["pat"].get("sub") or []
                        strict = [i_ for i_, p_ in enumerate(subs_) if isinstance(p_, dict) and p_.get("k") not in ("wild", "bind")]
                        if len(strict) != 1 or strict[0] >= len(elems):
                            continue
                        ci = strict[0]
                        adt_ = next((x_.get("adt") for x_ in [subs_[ci]] + list((subs_[ci].get("alts") or [])) if isinstance(x_, dict) and x_.get("adt")), None)
                        if not (adt_ and enum_of(adt_)):
                            continue
                        arms_ = []
                        for b_ in n["arms"]:
                            if b_["pat"].get("k") != "tuple":
                                arms_.append({"pat": {"k": "wild"}, "g": b_.get("g"), "b": b_["b"], "ln": b_.get("ln")})
                                continue
                            sb = b_["pat"].get("sub") or []
                            others_free = all(isinstance(p_, dict) and p_.get("k") in ("wild", "bind") for j_, p_ in enumerate(sb) if j_ != ci)
                            arms_.append({"pat": sb[ci] if ci < len(sb) else {"k": "wild"}, "g": b_.get("g") or (None if others_free else {"k": "lit", "t": "bool", "v": True}), "b": b_["b"], "ln": b_.get("ln")})
                        n = {"k": "match", "sadt": adt_, "s": elems[ci], "ln": n.get("ln"), "arms": arms_}
                        break
                if n.get("k") == "match" and enum_of(n.get("sadt")):
                    mt = n
                elif n.get("k") == "if":
                    m2 = C.iflet_as_match(n)
                    if m2:
                        # adt of an if-let: from the pattern
                        adt = m2["arms"][0]["pat"].get("adt") if m2["arms"][0]["pat"].get("k") == "variant" else None
                        if adt and enum_of(adt):
                            m2["sadt"] = adt
                            mt = m2
                elif n.get("k") == "letst" and n.get("els") is not None:
                    pat = n["pat"]
                    adt = pat.get("adt") if pat.get("k") == "variant" else None
                    if adt and enum_of(adt):
                        mt = {"k": "match", "sadt": adt, "ln": n.get("ln"), "arms": [{"pat": pat, "g": None, "b": {"k": "tup", "a": []}}, {"pat": {"k": "wild"}, "g": None, "b": n["els"]}]}
                if not mt:
                    continue
                arms = mt["arms"]
                pan = {}
                for i, a in enumerate(arms):
                    pm = C.panic_macro_of(a["b"])
                    if pm:
                        pan[i] = pm
                if not pan:
                    continue
                try:
                    table = C.decision_table(mt, adts)
                except C.CheckError:
                    continue
                for i in pan:
                    for x in C.walk(arms[i]["b"]):
                        if x.get("k") == "macro" and x.get("name") in PANIC_MACROS:
                            COVERED.add((path, x.get("ln")))
                # variants that can reach this match at all: enclosing arms on the same place, and (for a place rooted in a parameter) the
                # arms under which the function is called -- a catch-all arm of an extracted helper is selected by those only
                allowed = nar.allowed(f, mt, cstack) if mt.get("s") is not None else None
                sel = {}
                for v, hits in table:
                    if allowed is not None and v.variant is not None and v.variant not in allowed:
                        continue
                    for i, cond in hits:
                        if i in pan:
                            sel.setdefault(i, []).append((v.show(), cond))
                        if not cond:
                            break
                for i, vals in sel.items():
                    out.append({"fn": path, "enum": mt["sadt"].split("::")[-1], "values": sorted({v for v, _ in vals}), "conditional": any(c for _, c in vals),
                                "macro": pan[i][0], "msg": pan[i][1][:70], "loc": C.loc(f, arms[i].get("ln") or mt.get("ln"))})
    return out


def key_of(e):
    return "%s/%s/%s" % (e["fn"], e["enum"], "+".join(e["values"]))


def dart_alloc_rules(ck, rule, facts):
    """Dart's allocator lookups (method parameters and struct fields) recurse into DiplomatOption.  Shared with C04."""
    tool = facts.tool
    # Dart: the allocator lookup recurses into DiplomatOption
    dg = tool.fn("dart::TyGenContext::gen_method_info")
    an = [x for x in tool.fn_list if x["path"].endswith("::alloc_name") and "::dart::" in x["path"] and "hir" in x]
    rec_by_fn = {}
    for a_ in an:
        ok_rec = False
        for x in C.walk(C.fn_body(a_)):
            pats = []
            if x.get("k") == "if":
                pats = [y["pat"] for y in C.walk(x["c"]) if y.get("k") == "let" and isinstance(y.get("pat"), dict)]
                body_ = x["t"]
            elif x.get("k") == "match":
                pats = []
                for arm in x["arms"]:
                    if (arm["pat"].get("v") or "").split("::")[-1] == "DiplomatOption" and any(z.get("k") in ("call", "mcall") and (C.callee(z) or "").endswith("alloc_name") for z in C.walk(arm["b"])):
                        ok_rec = True
                continue
            for p_ in pats:
                if (p_.get("v") or "").split("::")[-1] == "DiplomatOption" and any(z.get("k") in ("call", "mcall") and (C.callee(z) or "").endswith("alloc_name") for z in C.walk(body_)):
                    ok_rec = True
        rec_by_fn[C.norm_path(a_["path"]).split("::")[-2]] = ok_rec
    # JS: the arena for a struct field is chosen on the type inside a DiplomatOption (an optional borrowed slice lives as long as the lifetime it borrows,
    # like the plain slice; an optional primitive needs no arena) -- the choosing match looks at the peeled type and has no arm of its own for DiplomatOption
    import flow
    gf = tool.fn("js::gen::TyGenContext::generate_fields", optional=True)
    if gf is None:
        ck.bad(rule, "js::generate_fields/arena-choice-sees-through-option", "generate_fields not found", None)
    else:
        chosen, defs_ = [], {}
        for h_ in C.fns_inl(tool, gf, 2):     # generate_fields or the helper it delegates the choice to
            ms_ = [m_ for m_ in C.walk(C.fn_body(h_)) if m_.get("k") == "match" and (m_.get("sadt") or "").endswith("hir::types::Type") and
                   any("functionCleanupArena" in l_ for a_ in m_["arms"] for l_ in C.str_lits(a_["b"]))]
            if ms_:
                chosen += ms_
                defs_ = dict(flow.defs_of(h_))
        ok_js, why_js = len(chosen) == 1, "the arena-choosing match was not found (%d candidates)" % len(chosen)
        if ok_js:
            m_ = chosen[0]
            own_arm = [a_ for a_ in m_["arms"] if "DiplomatOption" in json.dumps(a_["pat"]) and not C.diverges(a_["b"]) and C.strip(a_["b"]).get("p", "") != "core::option::Option::None"]
            sc = C.strip(m_["s"])
            for _ in range(4):
                if sc.get("k") == "local" and defs_.get(sc.get("id"), (None,))[0] == "expr":
                    sc = C.strip(defs_[sc["id"]][1])
                elif sc.get("k") in ("addr", "un") and isinstance(sc.get("e"), dict):
                    sc = C.strip(sc["e"])
                else:
                    break
            peels = any((y.get("k") == "let" and "DiplomatOption" in json.dumps(y.get("pat"))) or (y.get("k") == "match" and any("DiplomatOption" in json.dumps(a_["pat"]) for a_ in y["arms"])) or
                        (y.get("k") in ("mcall", "call") and (y.get("m") or C.callee(y) or "").endswith("unwrap_option")) for y in C.walk(sc))
            ok_js = peels and not own_arm
            why_js = "the match that chooses a field's arena %s" % ("gives DiplomatOption an arm of its own" if own_arm else "looks at the field type without peeling DiplomatOption")
        ck.expect(ok_js, rule, "js::generate_fields/arena-choice-sees-through-option", "decided on the peeled type", why_js + ": an optional borrowed slice field is staged in the per-call arena and "
                  "freed when the method returns while the returned object still borrows it (or an optional primitive asks for an allocator that is not there)", C.loc(gf))
    ck.expect(len(rec_by_fn) >= 2 and all(rec_by_fn.values()), rule, "dart::alloc_name/sees-through-option", str(rec_by_fn),
              "a Dart allocator lookup no longer recurses into DiplomatOption (%s): Option<struct> / Option<slice> values reach `unwrap()` / `need allocator for slice` with None, or an optional slice "
              "field is put into the temporary arena and freed while the returned object still borrows it" % rec_by_fn, C.loc(an[0]) if an else C.loc(dg))


def run(ck, facts):
    core, tool = facts.core, facts.tool
    adts = facts.all_adts()
    ck.units += ["diplomat_tool.lib", "diplomat_core.lib+hir (hir::methods, types, defs, paths, lifetimes, ty_position)"]
    ck.rule("R1", "every panic!/unreachable!/unimplemented!/todo! arm that is selected by a real variant of an HIR (or backend-local) enum is triaged in spec/panic_arms.json as excluded-by-property, impossible-by-type, impossible-by-gate, guarded or finding; a new such arm must be triaged")
    ck.rule("R2", "triage cross-check: arms classed impossible-by-gate name a gate cell, which the abstract interpretation of the gate confirms is rejected / never constructed for that backend profile")
    ck.rule("R3", "HIR-data-dependent unwrap/expect sites in the backends equal the triaged inventory (assumptions about the HIR's shape must be visible)")
    ck.rule("R5", "producer/consumer agreement for the JS allocator: generate_method supplies an allocator for every parameter type whose conversion arm unwraps one "
                  "(struct, DiplomatOption under the spec ABI; slices take the other branch); lifetime indices are looked up in the environment they index (shares C04.R6)")
    ck.rule("R6", "`.first()/.last().unwrap()` on a field list is protected by a length test that really excludes the empty list (evaluated for lengths 0..3), in the function itself or in the "
                  "predicate function that guards it; Dart's allocator lookup sees through DiplomatOption like the conversions that unwrap its result")
    ck.rule("R4", "producer/consumer agreement for optional template data: nanobind computes parameter declarations for every type kind whose templates unwrap them")
    ck.not_decided += ["index/slice panics and arithmetic overflow", "panics selected by identifier values rather than shapes (reserved type names, duplicate file names)"]

    # the assertions of js::layout::struct_field_info are triaged `internal-invariant` on the strength of C08.R3: that rule is part of this check
    import c08
    c08.run(C.SubCheck(ck, "R1", "", ["R3"], key_re=r"^struct_field_info/"), facts)
    inv = inventory([tool, core], adts)
    if os.environ.get("VERIF_DUMP_PANICS"):
        for e in inv:
            print("PANIC", json.dumps(e))
    spec = json.load(open(os.path.join(C.VERIF, "spec", "panic_arms.json")))
    tri = spec["arms"]
    seen = set()

    def norm_msg(m_):
        # the message identifies the site; how its placeholders are spelled (`{}` + argument, `{x}`, `{x:?}` with x renamed) does not
        return re.sub(r"\{\{|\}\}|\{[^{}]*\}?", lambda mm: mm.group(0) if mm.group(0) in ("{{", "}}") else "{}", re.sub(r"\s+", " ", m_))
    cspec = {}
    for k_, v_ in json.load(open(os.path.join(C.VERIF, "spec", "cond_panics.json")))["sites"].items():
        a_, b_, c_ = k_.split("/", 2)
        cspec["%s/%s/%s" % (a_, b_, norm_msg(c_))] = v_
    arm_as_cond = {}

    def loose(k_):
        fn_, en_, vs_ = k_.rsplit("/", 2)
        segs = C.norm_path(fn_).split("::")
        return ("::".join(segs[:2]) if len(segs) > 2 else segs[0], en_, vs_)
    by_loose = {}
    for k_ in tri:
        by_loose.setdefault(loose(k_), []).append(k_)
    exact_now = {key_of(e) for e in inv}
    for e in inv:
        k = key_of(e)
        seen.add(k)
        t = tri.get(k)
        if not t:
            # the arm may have moved into a helper of the same backend (same enum, same variants): reuse its triage unless that was site-specific
            cands = [c for c in by_loose.get(loose(k), []) if c not in exact_now] or by_loose.get(loose(k), [])
            t2 = tri.get(cands[0]) if cands else None
            if t2 and t2["class"] in ("excluded-by-property", "impossible-by-type", "impossible-by-gate", "identifier-value"):
                seen.add(cands[0])
                ck.ok("R1", k, "%s (triaged as %s): %s" % (t2["class"], cands[0], t2.get("why", "")), e["loc"])
                continue
            if t2 and t2["class"] == "finding":
                seen.add(cands[0])
                ck.bad("R1", cands[0], "%s! reachable for accepted input: %s" % (e["macro"], t2.get("why", "")), e["loc"])
                continue
            if t2 and t2["class"] == "guarded":
                # a site-specific argument moves with the arm only into a private helper of the triaged function: every call of the helper sits in that
                # function, so no value reaches the helper's match that did not reach the original one
                nar = NARROWS.get(e["fn"].split("::")[0])
                orig_fn = cands[0].rsplit("/", 2)[0]
                sites = nar.sites().get(e["fn"], []) if nar else []
                # (the triaged function itself, or -- when that was a nested fn which is gone -- the function it was nested in; recursion aside)
                homes = {orig_fn} if (nar and orig_fn in nar.unit.norm) else {orig_fn, orig_fn.rsplit("::", 1)[0]}
                if sites and e["fn"] not in nar._escapes and all(C.norm_path(g_["path"]) in homes | {e["fn"]} for g_, _, _ in sites) \
                        and any(C.norm_path(g_["path"]) in homes for g_, _, _ in sites):
                    seen.add(cands[0])
                    ck.ok("R1", k, "guarded (triaged as %s, moved into a helper called only from there): %s" % (cands[0], t2.get("why", "")), e["loc"])
                    continue
        if not t:
            # the same panic may have been triaged as a condition-guarded site (`if matches!(x, A | B) { panic!(..) }` rewritten as an exhaustive match): same function,
            # same macro, same message
            nm_ = norm_msg(e.get("msg") or "")
            ck_ = [c for c in cspec if c.split("/", 2)[0] == e["fn"] and c.split("/", 2)[1] == e["macro"] and c.split("/", 2)[2].strip() and nm_.startswith(c.split("/", 2)[2].rstrip("{ "))]
            if ck_:
                tc = cspec[sorted(ck_, key=len)[-1]]
                arm_as_cond[sorted(ck_, key=len)[-1]] = arm_as_cond.get(sorted(ck_, key=len)[-1], 0) + 1
                if tc["class"] == "finding":
                    ck.bad("R1", "cond:" + sorted(ck_, key=len)[-1], "reachable for accepted input: %s" % tc.get("why", ""), e["loc"])
                else:
                    ck.ok("R1", k, "%s (triaged as the condition-guarded site): %s" % (tc["class"], tc.get("why", ""))[:200], e["loc"])
                continue
        if not t:
            ck.bad("R1", k, "untriaged %s! arm (\"%s\") selected by %s::%s — can an accepted bridge reach it?" % (e["macro"], e["msg"], e["enum"], e["values"]), e["loc"])
            continue
        cls = t["class"]
        if cls == "finding":
            ck.bad("R1", k, "%s! reachable for accepted input: %s" % (e["macro"], t.get("why", "")), e["loc"])
        else:
            ck.ok("R1", k, "%s: %s" % (cls, t.get("why", "")), e["loc"])
    ck.note("%d panic arms selected by enum shapes; %d triaged entries no longer present (informational): %s" % (len(inv), len(set(tri) - seen), sorted(set(tri) - seen)[:3]))
    if len(inv) < 40:
        ck.bad("R1", "floor", "only %d shape-selected panic arms found (the extractor lost sight of the backends)" % len(inv))

    # ---------------- R1 (cont.) every other panic-family site (condition-guarded, let-else on non-HIR values, wild arms of matches on Option/tuples) is triaged too
    found_c = {}
    for f in tool.fn_list:
        if "hir" not in f or f.get("exp") or f.get("dk") == "Closure":
            continue
        pth = C.norm_path(f["path"])
        if not in_scope(pth):
            continue
        for n in C.walk(C.fn_body(f)):
            if n.get("k") == "macro" and n.get("name") in PANIC_MACROS and (pth, n.get("ln")) not in COVERED:
                msg = (C.macro_strings(n) or [""])[0]
                k = "%s/%s/%s" % (pth, n["name"], norm_msg(msg)[:48])
                found_c.setdefault(k, []).append(C.loc(f, n.get("ln")))

    def loose_c(k_):
        fn_, mac_, msg_ = k_.split("/", 2)
        segs = fn_.split("::")
        return ("::".join(segs[:2]) if len(segs) > 2 else segs[0], mac_, msg_)
    by_loose_c = {}
    for k_ in cspec:
        by_loose_c.setdefault(loose_c(k_), []).append(k_)
    for k, locs_ in sorted(found_c.items()):
        t = cspec.get(k)
        if not t:
            pk = [c for c in cspec if c.rsplit("/", 1)[0] == k.rsplit("/", 1)[0] and k.split("/", 2)[2].startswith(c.split("/", 2)[2].rstrip("{ "))]
            pk = sorted((c for c in pk if c.split("/", 2)[2].strip()), key=len, reverse=True)
            if pk:
                k = pk[0]
                t = cspec[k]
        extra_ = 0
        if not t:
            cands = [c for c in by_loose_c.get(loose_c(k), []) if c not in found_c] or [c for c in by_loose_c.get(loose_c(k), []) if cspec[c]["class"] != "finding"]
            if cands:
                t = cspec[cands[0]]
                if t["class"] == "finding":
                    k = cands[0]
                # some of the triaged sites may have stayed under the old key: the count covers both places
                extra_ = len(found_c.get(cands[0], []))
        if not t:
            ck.bad("R1", "cond:" + k, "untriaged %s! site that is not selected by an enum variant: which accepted bridge / configuration reaches it?" % k.split("/")[1], locs_[0])
        elif t["class"] == "finding":
            ck.bad("R1", "cond:" + k, "reachable for accepted input: %s" % t.get("why", ""), locs_[0])
        else:
            ck.expect(len(locs_) + extra_ <= t.get("count", 1), "R1", "cond:" + k, "%s: %s" % (t["class"], t.get("why", ""))[:200], "%d sites, %d triaged" % (len(locs_), t.get("count", 1)), locs_[0])
    if len(found_c) < 17:     # 20+ on the pinned tree; a guard rewritten as an exhaustive match moves its site to the arm inventory
        ck.bad("R1", "cond-floor", "only %d non-arm panic sites found (the extractor lost sight of the backends)" % len(found_c))

    # ---------------- R2 cross-check of impossible-by-gate entries that rely on a backend support flag
    sup = {}
    for b in ("c", "cpp", "js", "dart", "kotlin", "nanobind", "demo_gen"):
        f = tool.fn("diplomat_tool::%s::attr_support" % b)
        flags = {}
        for n in C.walk(C.fn_body(f)):
            if n.get("k") == "assign":
                l = C.strip(n["l"])
                r = C.strip(n["r"])
                if l.get("k") == "field" and r.get("k") == "lit" and r.get("t") == "bool":
                    flags[l["n"]] = r["v"]
        sup[b] = flags
    for k, t in sorted(tri.items()):
        if k not in seen or not t.get("needs"):
            continue
        m = re.match(r"^diplomat_tool::(\w+)::", k)
        b = m.group(1) if m else None
        flag, val = t["needs"]["flag"], t["needs"]["value"]
        got = sup.get(b, {}).get(flag, False)
        ck.expect(b in sup and got == val, "R2", "%s/needs-%s=%s" % (k.split("/")[0].replace("diplomat_tool::", ""), flag, val), "%s::attr_support().%s = %s" % (b, flag, got),
                  "the triage of this panic arm relies on %s.%s = %s, but attr_support() now declares %s: the gate lets the shape through to the panic" % (b, flag, val, got), None)
    # the gate must actually test those flags (C05 decides the cells; here only the presence of the tests)
    lt = core.fn("hir::lowering::LoweringContext::lower_type")
    tested = {n["n"] for n in C.walk(C.fn_body(lt)) if n.get("k") == "field" and C.strip(n["e"]).get("k") == "mcall" and C.strip(n["e"]).get("m") == "attrs_supported"}
    for flag in ("option", "callbacks", "traits", "static_slices"):
        ck.expect(flag in tested, "R2", "gate-tests/" + flag, "", "lower_type no longer consults attrs_supported().%s" % flag, C.loc(lt))

    # the attribute gate drops a special-method marker a backend does not support when the marker is gated on `auto` ("where supported"): the arm of
    # Attrs::from_ast that stores the parsed marker is preceded by (or is itself under) a guard that asks the backend's support record about the parsed kind,
    # and that predicate answers every SpecialMethod variant with one of the record's flags.  The triage class `impossible-by-gate` of the backends'
    # "unknown special method" arms rests on it.
    fa = core.fn("hir::attrs::Attrs::from_ast")
    SMP = "hir::attrs::SpecialMethod"
    gate_ok, gate_fn, n_store = False, None, 0

    def stores_marker(node):
        return any(x.get("k") == "assign" and C.strip(x["l"]).get("k") == "field" and C.strip(x["l"]).get("n") == "special_method" for x in C.walk(node))
    for m_ in C.walk(C.fn_body(fa)):
        if m_.get("k") != "match" or not any((C.callee(x) or "").endswith("SpecialMethod::from_path_and_meta") for x in C.walk(m_["s"])):
            continue
        for i_, a_ in enumerate(m_["arms"]):
            if not stores_marker(a_["b"]):
                continue
            n_store += 1
            for j_, b_ in enumerate(m_["arms"][:i_ + 1]):
                g_ = b_.get("g")
                if not g_:
                    continue
                binds_ = set(C.pat_bind_ids(b_["pat"]))
                for x in C.walk(g_):
                    if x.get("k") in ("mcall", "call") and "BackendAttrSupport" in (x.get("p") or "") and any(
                            y.get("k") == "local" and y.get("id") in binds_ for a2 in (x.get("a") or []) for y in C.walk(a2)):
                        negated = any(y.get("k") == "un" and y.get("op") == "Not" and any(z is x for z in C.walk(y["e"])) for y in C.walk(g_))
                        if (j_ < i_ and negated and not stores_marker(b_["b"])) or (j_ == i_ and not negated):
                            gate_ok = True
                            gate_fn = core.norm.get(C.norm_path(x.get("p") or ""))
    ck.expect(n_store >= 1 and gate_ok, "R2", "gate/special-method-support", "the marker is stored only after the support record was asked about it",
              "Attrs::from_ast stores a special-method marker (constructor, add, iterator, ...) without asking the backend's support record about it: `#[diplomat::attr(auto, add)]` "
              "marks the method in a backend that declares arithmetic = false, and that backend's method generator ends in its `unknown special method` arm "
              "(check_string is keyed by support names, never by marker names)", C.loc(fa))
    if gate_fn is not None and "hir" in gate_fn:
        sm_adt = adts.get(core.adt(SMP)["path"])
        flags_ = {fl["name"] for fl in core.adt("hir::attrs::BackendAttrSupport")["variants"][0]["fields"] if fl["ty"] == "bool"}
        mm = [x for x in C.walk(C.fn_body(gate_fn)) if x.get("k") == "match" and (x.get("sadt") or "").endswith(SMP)]
        answered = {}
        if len(mm) == 1:
            for v_, hits in C.decision_table(mm[0], adts):
                arm_i = next((i for i, cond in hits if not cond), None)
                b_ = C.strip(mm[0]["arms"][arm_i]["b"]) if arm_i is not None else {}
                answered[v_.variant] = b_.get("n") if b_.get("k") == "field" and C.strip(b_["e"]).get("k") == "local" and b_.get("n") in flags_ else None
        want_v = {v["name"] for v in sm_adt["variants"]}
        ck.expect(set(answered) == want_v and all(answered.values()), "R2", "gate/special-method-support/total", str(answered),
                  "the support predicate does not answer every SpecialMethod variant with a flag of BackendAttrSupport: %s" % {k_: v_ for k_, v_ in answered.items() if not v_} , C.loc(gate_fn))

    # ---------------- R3 HIR-data-dependent unwrap/expect inventory
    import flow
    usp = json.load(open(os.path.join(C.VERIF, "spec", "unwraps.json")))["sites"]
    found = {}
    for f in tool.fn_list:
        if f.get("dk") == "Closure" or "hir" not in f or f.get("exp"):
            continue
        p = C.norm_path(f["path"])
        if not in_scope(p):
            continue
        defs = None
        for n in C.walk(C.fn_body(f)):
            if n.get("k") == "mcall" and n.get("m") in ("unwrap", "expect") and "option::Option" in (n.get("rty") or ""):
                r0 = C.strip(n["recv"])
                if r0.get("k") == "mcall" and r0.get("m") in ("next", "next_back", "last") and not r0.get("a") and C.strip(r0["recv"]).get("k") == "mcall" and \
                        C.strip(r0["recv"]).get("m") in ("split", "rsplit", "split_terminator", "splitn", "rsplitn", "split_inclusive") and "str" in (C.strip(r0["recv"]).get("rty") or ""):
                    continue   # str::split yields at least one item whatever the string is: not a data-dependent unwrap
                if defs is None:
                    defs = flow.defs_of(f)
                leaves = flow.trace(n["recv"], defs)
                summ = sorted({(x[0] + ":" + (x[1] if x[0] in ("field", "param") else str(x[1]).split("::")[-1])) for x in leaves})
                key = "%s/%s(%s)" % (p, n["m"], ",".join(summ))
                found.setdefault(key, []).append(C.loc(f, n.get("ln")))
    if os.environ.get("VERIF_DUMP_UNWRAPS"):
        print("UNWRAPS", json.dumps({k: len(v) for k, v in found.items()}, indent=1, sort_keys=True))
    BACKENDS_ = {"c", "cpp", "js", "dart", "kotlin", "nanobind", "demo_gen", "config", "hir", "ast"}

    def modgroup(fn_):
        segs = C.norm_path(fn_).split("::")
        return "::".join(segs[:2]) if len(segs) > 2 and segs[1] in BACKENDS_ else segs[0]

    def loose_u(k_):
        fn_, rest = k_.split("/", 1)
        return (modgroup(fn_), rest)
    by_loose_u = {}
    for k_ in usp:
        by_loose_u.setdefault(loose_u(k_), []).append(k_)
    for k, locs in sorted(found.items()):
        t = usp.get(k)
        if not t:
            # the same unwrap (same backend, same method, same provenance of the Option) may have moved into a helper or another module
            cands = [c for c in by_loose_u.get(loose_u(k), []) if c not in found]
            if cands and usp[cands[0]]["class"] != "finding":
                ck.expect(len(locs) <= usp[cands[0]].get("count", 1), "R3", k, "%s (triaged as %s)" % (usp[cands[0]]["class"], cands[0]), "%d sites, %d triaged" % (len(locs), usp[cands[0]].get("count", 1)), locs[0])
                continue
            if cands:
                ck.bad("R3", cands[0], usp[cands[0]]["why"], locs[0])
                continue
        if not t:
            ck.bad("R3", k, "untriaged unwrap/expect on an Option derived from HIR data or a parameter: which accepted bridge makes it None?", locs[0])
        elif t["class"] == "finding":
            ck.bad("R3", k, t["why"], locs[0])
        else:
            ck.expect(len(locs) <= t.get("count", 1), "R3", k, t["class"], "%d sites, %d triaged" % (len(locs), t.get("count", 1)), locs[0])
    if len(found) < 25:
        ck.bad("R3", "floor", "only %d unwrap/expect sites found" % len(found))

    # unwrap / expect on a Result in the backends: only on operations that cannot fail for any input (triaged by the kind of operation, not by site)
    RESULT_UNWRAPS = {
        "mcall:render": "askama template rendering into a String: fails only if a template expression panics/returns fmt::Error, judged by the other rules",
        "mcall:render_into": "askama rendering into a String-backed writer",
        "macro:write": "write! into a String (fmt::Write for String is infallible)",
        "macro:writeln": "writeln! into a String",
        "mcall:try_into": "TypeId -> SymbolId / specific id conversions on ids whose kind the enclosing arm established",
        "mcall:get_inputs": "accessor of a hir Callback, Err only for non-callback types (established by the enclosing arm)",
        "mcall:get_output_type": "accessor of a hir Callback, Err only for non-callback types",
        "call:from_size_align": "Layout::from_size_align on sizes/alignments computed from valid layouts (power-of-two alignment is the running max of valid alignments)",
    }
    nres = 0
    for f in tool.fn_list:
        if f.get("dk") == "Closure" or "hir" not in f or f.get("exp"):
            continue
        p_ = C.norm_path(f["path"])
        if not in_scope(p_):
            continue
        for n in C.walk(C.fn_body(f)):
            if n.get("k") == "mcall" and n.get("m") in ("unwrap", "expect") and "result::Result" in (n.get("rty") or ""):
                r_ = C.strip_keep_macro(n["recv"])
                kind_ = "macro:" + str(r_.get("name")) if r_.get("k") == "macro" else ("mcall:" + str(r_.get("m")) if r_.get("k") == "mcall" else
                                                                                          ("call:" + (C.callee(r_) or "?").split("::")[-1] if r_.get("k") == "call" else str(r_.get("k"))))
                nres += 1
                if kind_ not in RESULT_UNWRAPS:
                    ck.bad("R3", "%s/result-%s(%s)" % (p_, n["m"], kind_), "untriaged unwrap/expect on a Result (%s) in a backend: which accepted bridge, file or configuration makes it Err? "
                           "(backends report such failures through their error store)" % kind_, C.loc(f, n.get("ln")))
    ck.expect(nres >= 40, "R3", "result-unwraps/inventory", "%d Result unwraps, all of infallible kinds" % nres, "only %d Result unwrap sites found in the backends (77 counted)" % nres)
    # `Type::id().unwrap()` is sound only where the value is known to be a custom type (a Struct/Enum/Opaque arm on that value, or a converted SelfType)
    n_id = 0
    for f in tool.fn_list:
        if "hir" not in f or f.get("exp") or f.get("dk") == "Closure":
            continue
        fdefs_ = None
        for n, st in C.with_conditions(C.fn_body(f)):
            if not (n.get("k") == "mcall" and n.get("m") in ("unwrap", "expect")):
                continue
            r = C.strip(n["recv"])
            if not (r.get("k") == "mcall" and r.get("m") == "id" and re.search(r"hir::types::Type\b", r.get("rty") or "")):
                continue
            n_id += 1
            arm_vs = set()
            for kind, a, b in st:
                if kind == "arm":
                    pv = b["pat"]
                    arm_vs |= {(v or "").split("::")[-1] for v in [pv.get("v")] + [x.get("v") for x in (pv.get("alts") or [])] if v}
                if kind == "if":
                    for y in C.walk(a):
                        if y.get("k") == "let" and isinstance(y.get("pat"), dict) and y["pat"].get("v"):
                            arm_vs.add(y["pat"]["v"].split("::")[-1])
            restricted = bool(arm_vs & {"Struct", "Enum", "Opaque"}) and not (arm_vs & {"Primitive", "Slice", "DiplomatOption", "Callback"})
            if not restricted:
                base = C.strip(r["recv"])
                if fdefs_ is None:
                    fdefs_ = flow.defs_of(f)
                d_ = fdefs_.get(base.get("id")) if base.get("k") == "local" else None
                src_nodes = list(C.walk(d_[1])) if d_ and d_[0] == "expr" else []
                restricted = any("SelfType" in (y.get("rty") or y.get("bty") or y.get("ty") or "") or (y.get("k") == "field" and y.get("n") == "param_self") for y in src_nodes)
            key_ = "%s/id-unwrap" % C.norm_path(f["path"]).replace("diplomat_tool::", "")
            key_ += "#%d" % sum(1 for i in ck.instances if i["rule"] == "R3" and i["key"].startswith(key_))
            ck.expect(restricted, "R3", key_, "value restricted to a custom type",
                      "`.id().unwrap()` on an hir::Type that is not known to be a struct, enum or opaque here: a primitive or slice in this position (e.g. the error type of `Result<(), u8>`) makes the tool panic", C.loc(f, n.get("ln")))
    if n_id < 5:
        ck.bad("R3", "id-unwrap/floor", "only %d `Type::id().unwrap()` sites found (7 counted)" % n_id)

    # ---------------- R3 (cont.) docs links: the number of trailing path elements a link kind is said to have (the `module_depth` table: 1 for an item, 2 for an item's
    # member, 3 for a variant field) is the number of elements the URL builder then takes with `elements.next().unwrap()`: one for the item page plus one per anchor part
    dg = core.fn("ast::docs::DocsUrlGenerator::gen_for_rust_link", optional=True)
    if dg is None:
        ck.bad("R3", "docs::gen_for_rust_link/anchor", "DocsUrlGenerator::gen_for_rust_link not found", None)
    else:
        dms = [m_ for m_ in C.walk(C.fn_body(dg)) if m_.get("k") == "match" and (m_.get("sadt") or "").endswith("DocType")]
        depth_m = next((m_ for m_ in dms if all(C.strip(a_["b"]).get("k") == "lit" and C.strip(a_["b"]).get("t") == "int" for a_ in m_["arms"])), None)
        take_m = next((m_ for m_ in dms if any(any(x.get("k") == "mcall" and x.get("m") == "next" for x in C.walk(a_["b"])) for a_ in m_["arms"])), None)
        if depth_m is None or take_m is None:
            # one table may hold both numbers: `Kind => (n_elements, page_prefix, &[anchor prefixes])` -- n = 1 + number of anchor parts (0 for a module)
            merged = None
            for g_ in [dg] + [x for x in core.fn_list if "hir" in x and C.norm_path(x["path"]).startswith("diplomat_core::ast::docs::") and x is not dg]:
                for m_ in C.walk(C.fn_body(g_)):
                    if m_.get("k") == "match" and (m_.get("sadt") or "").endswith("DocType") and m_["arms"] and all(
                            C.strip(a_["b"]).get("k") == "tup" and C.strip(a_["b"])["a"] and C.strip(C.strip(a_["b"])["a"][0]).get("k") == "lit" for a_ in m_["arms"]):
                        merged = (g_, m_)
            if merged is None:
                ck.bad("R3", "docs::gen_for_rust_link/tables", "cannot find the depth table / the anchor table over DocType", C.loc(dg))
            else:
                badv = {}
                for a_ in merged[1]["arms"]:
                    t_ = C.strip(a_["b"])["a"]
                    n_ = int(C.strip(t_[0])["v"])
                    arrs = [y for x in t_[1:] for y in C.walk(x) if y.get("k") == "array"]
                    parts = len(arrs[0]["a"]) if arrs else None
                    if n_ != 0 and parts is not None and n_ != 1 + parts:
                        badv[str(a_["pat"].get("v"))] = (n_, 1 + parts)
                ck.expect(not badv, "R3", "docs::gen_for_rust_link/elements-taken-agree", "%d link kinds (one table)" % len(merged[1]["arms"]),
                          "link kinds %s reserve a different number of trailing path elements than they have page + anchor parts" % badv, C.loc(merged[0]))
        else:
            depth, takes = {}, {}
            for v, hits in C.decision_table(depth_m, adts):
                i_ = next((i for i, c_ in hits if not c_), None)
                if i_ is not None:
                    depth[v.variant] = int(C.strip(depth_m["arms"][i_]["b"])["v"])
            for v, hits in C.decision_table(take_m, adts):
                i_ = next((i for i, c_ in hits if not c_), None)
                takes[v.variant] = sum(1 for x in C.walk(take_m["arms"][i_]["b"]) if x.get("k") == "mcall" and x.get("m") == "next") if i_ is not None else 0
            badv = {v_: (d_, 1 + takes.get(v_, 0)) for v_, d_ in depth.items() if d_ != 0 and d_ != 1 + takes.get(v_, 0)}
            ck.expect(len(depth) >= 20 and not badv, "R3", "docs::gen_for_rust_link/elements-taken-agree", "%d link kinds" % len(depth),
                      "link kinds %s reserve (depth table) a different number of trailing path elements than the URL builder takes (item + anchor parts): `elements.next().unwrap()` panics on a "
                      "well-formed #[diplomat::rust_link] in every backend that prints docs" % badv, C.loc(dg))

    # ---------------- R4 nanobind param_decls agreement
    g = tool.fn("nanobind::ty::TyGenContext::gen_method_info")
    # the site that builds the parameter declarations (a NamedType per parameter) -- in gen_method_info or in a helper it delegates to -- and the conditions on
    # the way to it (early returns included, conditions held in locals resolved): for which TypeId variants can it be reached?
    import flow as _flow
    ok = False
    detail = "the construction of the parameter declarations (NamedType per method parameter) was not found"
    tid = core.adt("hir::defs::TypeId", optional=True) or core.adt("TypeId")
    variants = [v["name"] for v in tid["variants"]]
    for h_ in C.fns_inl(tool, g, 2):
        hdefs = dict(_flow.defs_of(h_))
        site = None
        for n_, st_ in C.with_conditions(C.fn_body(h_)):
            if n_.get("k") == "struct" and (n_.get("adt") or "").endswith("NamedType") and any(
                    y.get("k") == "field" and y.get("n") in ("params", "name") for fl_ in n_.get("fields") or [] for y in C.walk(fl_["e"])) and \
                    any(k_ == "if" for k_, _, _ in st_):
                site = (n_, st_)
                break
        if site is None:
            continue
        allowed = set(variants)

        def known(c_, truth, depth=0):
            """atoms of condition c_ whose truth value is fixed when c_ evaluates to `truth`"""
            c_ = C.strip_keep_macro(c_)
            if not isinstance(c_, dict) or depth > 6:
                return []
            if c_.get("k") == "un" and c_.get("op") == "Not":
                return known(c_["e"], not truth, depth + 1)
            if c_.get("k") == "local":
                d_ = hdefs.get(c_.get("id"))
                return known(d_[1], truth, depth + 1) if d_ and d_[0] == "expr" else []
            if c_.get("k") == "bin" and c_.get("op") in ("And", "Or"):
                if (c_["op"] == "And") == truth:
                    return known(c_["l"], truth, depth + 1) + known(c_["r"], truth, depth + 1)
                return []
            if c_.get("k") == "block" and not c_.get("s") and c_.get("e") is not None:
                return known(c_["e"], truth, depth + 1)
            return [(c_, truth)]
        for k_, c_, br_ in site[1]:
            if k_ != "if":
                continue
            for atom, truth in known(c_, br_ == "t"):
                inner = atom["inner"] if atom.get("k") == "macro" and atom.get("name") == "matches" else atom
                inner = C.strip(inner)
                if inner.get("k") == "match" and (inner.get("sadt") or "").endswith("TypeId"):
                    pos = set()
                    for a in inner["arms"]:
                        if C.strip(a["b"]).get("v") is True:
                            pv = a["pat"]
                            pos |= {q.get("v") for q in ([pv] if pv.get("k") != "or" else pv["alts"])}
                    allowed &= pos if truth else (set(variants) - pos)
        need = {v for v in variants if v != "Opaque"}
        ok = allowed >= need
        detail = "param_decls computed for TypeId::%s" % sorted(allowed)
        break
    ck.expect(ok, "R4", "nanobind::gen_method_info/param_decls-kinds", detail, "%s; the struct/out-struct/enum templates (is_self_opaque = false) unwrap m.param_decls for constructors and static setters, so every non-opaque kind needs it" % detail, C.loc(g))
    for rel, want in (("nanobind/struct_impl.cpp.jinja", "false"), ("nanobind/enum_impl.cpp.jinja", "false"), ("nanobind/opaque_impl.cpp.jinja", "true")):
        import tmpl
        fl = tmpl.flat_file(rel, resolve_includes=False)
        m = re.search(r"let\s+is_self_opaque\s*=\s*(true|false)", fl)
        ck.expect(bool(m) and m.group(1) == want, "R4", rel + "/is_self_opaque", want, "template %s sets is_self_opaque = %s (expected %s)" % (rel, m.group(1) if m else None, want), "tool/templates/" + rel)


    # producer / consumer for operator methods: the C++ and nanobind templates index `param_decls[0]` / print binary operators for every arithmetic and comparison special method,
    # relying on the attribute validator having pinned the parameter count and the receiver: inside its arm every `check_param_count` / `check_self_param` runs unconditionally
    va = core.fn("hir::attrs::Attrs::validate")
    nchk = 0
    for b_ in C.bodies_inl(core, C.fn_body(va), depth=1, exclude=[va["path"]]):
        for n, st in C.with_conditions(b_):
            nm_ = None
            if n.get("k") == "call" and isinstance(n.get("f"), dict) and n["f"].get("k") == "local":
                nm_ = n["f"].get("n")
            elif n.get("k") in ("call", "mcall"):
                nm_ = (n.get("m") or (C.callee(n) or "").split("::")[-1])
            if nm_ not in ("check_param_count", "check_self_param"):
                continue
            nchk += 1
            last_arm = max([i for i, e_ in enumerate(st) if e_[0] == "arm"] or [-1])
            cond_after = [e_ for e_ in st[last_arm + 1:] if e_[0] == "if"] if last_arm >= 0 else []
            arm_names = []
            if last_arm >= 0:
                pv = st[last_arm][2]["pat"]
                arm_names = [q.get("v") for q in ([pv] if pv.get("k") != "or" else pv["alts"]) if q.get("v")]
            ck.expect(not cond_after, "R4", "hir::Attrs::validate/%s@%s#%d" % (nm_, "+".join(arm_names) or "arith", sum(1 for i in ck.instances if i["rule"] == "R4" and i["key"].startswith("hir::Attrs::validate/%s@%s#" % (nm_, "+".join(arm_names) or "arith")))),
                      "unconditional within its arm", "`%s` is skipped under a condition for %s methods: a special method with an unexpected number of parameters / receiver passes validation and the "
                      "backend templates that index its parameter list panic" % (nm_, "+".join(arm_names) or "arithmetic"), C.loc(va, n.get("ln")))
    if nchk < 10:
        ck.bad("R4", "hir::Attrs::validate/checks-floor", "only %d check_param_count / check_self_param calls found (14 counted)" % nchk)

    # ---------------- R5 JS allocator producer / consumer
    tool = facts.tool
    adts = facts.all_adts()
    conv = next(iter(tool.fns_matching(r"::js::converter::.*::gen_js_to_c_for_type$")), None)
    gm = next(iter(tool.fns_matching(r"::js::gen::.*::generate_method$")), None) or next(iter(tool.fns_matching(r"::js::.*::generate_method$")), None)
    if not conv or not gm:
        ck.bad("R5", "js/anchors", "gen_js_to_c_for_type / generate_method not found")
    else:
        consumers = set()
        mt = next((n for n in C.walk(C.fn_body(conv)) if n.get("k") == "match" and (n.get("sadt") or "").endswith("hir::types::Type")), None)
        if mt:
            for arm in mt["arms"]:
                # in the arm itself or in the helper the arm delegates to (the recursive dispatcher itself is not a helper)
                # the allocator parameter(s): the `Option<&str>` parameter of the converter and of the helpers an arm delegates to, whatever they are called
                anames = set()
                for h_ in [conv] + [tool.norm.get(C.norm_path(C.callee(c_) or "")) for c_ in C.calls_in(arm["b"])]:
                    if h_ and "hir" in h_:
                        for t_, p_ in zip(h_.get("inputs") or [], h_["hir"].get("params") or []):
                            if re.fullmatch(r"core::option::Option<&('\w+ )?str>", t_) and isinstance(p_, dict) and p_.get("n"):
                                anames.add(p_["n"])

                def is_alloc(e_):
                    e_ = C.strip(e_)
                    return isinstance(e_, dict) and e_.get("k") == "local" and e_.get("n") in anames

                def needs_alloc(x):
                    if x.get("k") == "mcall" and x.get("m") in ("unwrap", "expect", "unwrap_or_else") and is_alloc(x["recv"]):
                        return True
                    if x.get("k") == "letst" and x.get("els") is not None and x.get("init") is not None and is_alloc(x["init"]) and C.diverges(x["els"]):
                        return True     # `let Some(a) = alloc else { panic!(..) }`
                    if x.get("k") == "match" and is_alloc(x["s"]) and any((a_["pat"].get("v") == "None" or a_["pat"].get("k") == "wild") and C.diverges(a_["b"]) for a_ in x["arms"]):
                        return True
                    return False
                needs = any(needs_alloc(x) for x in C.walk_inl(tool, arm["b"], 1, exclude=[conv["path"]], max_nodes=1500))
                if needs:
                    pv = arm["pat"]
                    for v in [pv.get("v")] + [a_.get("v") for a_ in pv.get("alts", []) or []]:
                        if v:
                            consumers.add(v.split("::")[-1])
        ck.expect(consumers == {"Struct", "DiplomatOption", "Slice"}, "R5", "js::gen_js_to_c_for_type/allocator-consumers", str(sorted(consumers)),
                  "conversion arms that unwrap the allocator are now %s (triaged: DiplomatOption, Slice, Struct)" % sorted(consumers), C.loc(conv))
        prod = None
        scrut_ok = False
        # what generate_method hands to the converter's allocator parameter: `if matches!(param.ty, P..) { Some(..) } else { None }` or `match param.ty { P.. => Some(..), _ => None }`
        import flow as _fl
        a_idx = next((i_ for i_, t_ in enumerate(conv.get("inputs") or []) if re.fullmatch(r"core::option::Option<&('\w+ )?str>", t_)), None)
        gm_defs = dict(_fl.defs_of(gm))
        for n in C.walk(C.fn_body(gm)):
            if not (n.get("k") in ("call", "mcall") and C.norm_path(n.get("p") or C.callee(n) or "") == C.norm_path(conv["path"]) and a_idx is not None):
                continue
            args = ([n["recv"]] + list(n.get("a") or [])) if n.get("k") == "mcall" else list(n.get("a") or [])
            if a_idx >= len(args):
                continue
            e_ = C.strip(args[a_idx])
            for _ in range(4):
                if e_.get("k") == "local" and gm_defs.get(e_.get("id"), (None,))[0] == "expr":
                    e_ = C.strip(gm_defs[e_["id"]][1])
                elif e_.get("k") == "mcall" and e_.get("m") in ("as_deref", "as_ref", "clone", "copied") and not e_.get("a"):
                    e_ = C.strip(e_["recv"])
                else:
                    break
            mm = None
            if e_.get("k") == "if":
                mm = C.iflet_as_match(e_) or next((x for x in C.walk(e_["c"]) if x.get("k") == "match"), None)
                some_arms = None
                if mm is not None and not mm.get("synthetic"):
                    # a bare `matches!` in the condition: arms yield true/false, the `if` maps true to its then-branch
                    yields_some = any((x.get("ctor") or x.get("p") or "").endswith("Option::Some") for x in C.walk(e_["t"]))
                    some_arms = {i_ for i_, a_ in enumerate(mm["arms"]) if C.strip(a_["b"]).get("v") is True} if yields_some else set()
            elif e_.get("k") == "match":
                mm = e_
                some_arms = None
            if mm is None:
                continue
            if some_arms is None:
                some_arms = {i_ for i_, a_ in enumerate(mm["arms"]) if any((x.get("ctor") or x.get("p") or "").endswith("Option::Some") for x in C.walk(a_["b"]))}
            sc = C.strip(mm.get("s") or {})
            while sc.get("k") in ("addr", "un") and isinstance(sc.get("e"), dict):
                sc = C.strip(sc["e"])
            scrut_ok = sc.get("k") == "field" and sc.get("n") == "ty"
            prod = sorted({v.variant for v, hits in C.decision_table(dict(mm, sadt="diplomat_core::hir::types::Type"), adts, "diplomat_core::hir::types::Type")
                           if hits and hits[0][0] in some_arms and v.variant})
        need = sorted(consumers - {"Slice"})
        ck.expect(prod is not None and scrut_ok and set(need) <= set(prod), "R5", "js::generate_method/allocator-producers", "allocator for %s (param.ty itself)" % prod,
                  "generate_method supplies an allocator for %s of %s, but the conversion unwraps one for %s: an accepted parameter (e.g. Option<u8> under js.abi = \"spec\") reaches "
                  "`Expected an allocator to be specified`" % (prod, "param.ty" if scrut_ok else "a derived type (not param.ty itself)", need), C.loc(gm))
    # struct fields: generate_fields supplies an allocator only for slice / struct payloads (the arena choice, C04.R1), which is all `_writeToArrayBuffer` needs.
    # The flattened-list conversion of a field (JsToCConversionContext::List) also unwraps one for an optional primitive, and exists for the legacy ABI only:
    # it is requested only under `WasmABI::Legacy`
    gfl = tool.fn("js::gen::TyGenContext::generate_fields", optional=True)
    nlist = 0
    if gfl is not None:
        for n_, st_ in C.with_conditions(C.fn_body(gfl)):
            if n_.get("k") == "call" and (n_.get("ctor") or "").endswith("JsToCConversionContext::List"):
                nlist += 1
                legacy = any(k_ == "arm" and (a_.get("sadt") or "").endswith("WasmABI") and "Legacy" in json.dumps(b_["pat"]) and "CSpec" not in json.dumps(b_["pat"]) for k_, a_, b_ in st_)
                ck.expect(legacy, "R5", "js::generate_fields/list-context-only-for-legacy#%d" % nlist, "under WasmABI::Legacy",
                          "generate_fields asks for the flattened-list conversion of a struct field for every ABI: under js.abi = \"spec\" a field of type DiplomatOption<primitive / enum> has no "
                          "allocator (none is needed to write it into a buffer) and the conversion panics with `Expected an allocator to be specified`", C.loc(gfl, n_.get("ln")))
    if nlist < 1:
        ck.bad("R5", "js::generate_fields/list-context-floor", "no JsToCConversionContext::List construction found in generate_fields (1 counted)")
    # the duplicate-file panic of FileMap::add_file is triaged as depending on identifier spelling only: that holds as long as file names keep the type name as it is (C14.R4)
    import c14
    c14.run(C.SubCheck(ck, "R1", "", ["R4"], key_re=r"name-kept-as-is|fmt_file_name"), facts)
    import c04
    sub = C.SubCheck(ck, "R5", "", ["R6"], key_re=r"lifetime-env|def-lifetime-in-user-env|matcher-selftest|^floor|loop-pattern")   # the index-branding part of C04.R6 (an index into the wrong environment panics)
    c04.run(sub, facts)


    # ---------------- R6 length guards of first()/last() unwraps
    import exprval

    def len_conditions(fn):
        """(cond node, diverging?) for every `if` in fn whose condition speaks about `.len()` / `.is_empty()`"""
        out = []
        for x in C.walk_inl(tool, C.fn_body(fn), 2, exclude=[fn["path"]]):
            if x.get("k") == "if" and any(y.get("k") == "mcall" and y.get("m") in ("len", "is_empty") for y in C.walk(x["c"])):
                out.append((x["c"], C.diverges(x["t"]) or any(y.get("k") in ("ret", "continue", "break") for y in C.walk(x["t"]))))
        return out

    def excludes_empty(conds):
        """does some early-exit condition hold for length 0 (so the code after it never sees an empty list)?"""
        for c, div in conds:
            if not div:
                continue
            try:
                if exprval.bev(c, {"len": 0}):
                    return True
            except exprval.Unknown:
                continue
        return False
    n6 = 0
    for f in tool.fn_list:
        if "hir" not in f or f.get("exp") or f.get("dk") == "Closure":
            continue
        sites = [n for n in C.walk(C.fn_body(f)) if n.get("k") == "mcall" and n.get("m") in ("unwrap", "expect") and C.strip(n["recv"]).get("k") == "mcall"
                 and C.strip(n["recv"]).get("m") in ("first", "last") and "[" in (C.strip(n["recv"]).get("rty") or "")]
        fkey = C.norm_path(f["path"]).replace("diplomat_tool::", "")
        # `let [x] = list[..] else { diverge }` takes the element and tests the length in one construct: nothing to weaken
        slice_lets = [n for n in C.walk(C.fn_body(f)) if n.get("k") == "letst" and n.get("els") is not None and '"k": "slice"' in json.dumps(n.get("pat"))]
        if slice_lets:
            n6 += 1
            ck.ok("R6", "%s/slice-pattern" % fkey, "element taken by a refutable slice pattern with a diverging else", C.loc(f, slice_lets[0].get("ln")))
        if not sites:
            continue
        conds = len_conditions(f)
        if conds:
            n6 += 1
            ck.expect(excludes_empty(conds), "R6", "%s/len-guard" % fkey, "early exit for the empty list",
                      "`%s().unwrap()` follows a length test that lets the empty list through (the test was weakened): a zero-field struct reaches the unwrap and the tool panics" % C.strip(sites[0]["recv"]).get("m"), C.loc(f, sites[0].get("ln")))
            continue
        # guarded by a predicate function called in this function (match guard / if condition)
        preds = []
        for x in C.walk(C.fn_body(f)):
            if x.get("k") in ("call", "mcall"):
                p_ = C.norm_path(x.get("p") or C.callee(x) or "")
                cal = tool.norm.get(p_)
                if cal and "hir" in cal and cal is not f and (cal.get("output") == "bool") and len_conditions(cal):
                    preds.append(cal)
        for cal in {c_["path"]: c_ for c_ in preds}.values():
            n6 += 1
            ck.expect(excludes_empty(len_conditions(cal)), "R6", "%s/guarded-by/%s" % (fkey, cal["path"].split("::")[-1]), "predicate excludes the empty list",
                      "`%s` guards a first()/last().unwrap() in %s but no longer returns early for an empty list" % (cal["path"].split("::")[-1], fkey), C.loc(cal))
    if n6 < 1:
        ck.bad("R6", "floor", "no guarded first()/last() unwrap site found (4 counted)")
    dart_alloc_rules(ck, "R6", facts)

"""C10 — one wire encoding for Option and Result (structural clauses)."""
import re
import common as C
import absint as A
import tmpl
import cdecl
import flow
import tables as T
from common import MirFn, sym_show, sym_walk

LT = "hir::lowering::LoweringContext::lower_type"
LO = "hir::lowering::LoweringContext::lower_out_type"
LR = "hir::lowering::LoweringContext::lower_return_type"
F_ = A.B(False)


def strip_unk(v):
    return v


def run(ck, facts):
    core, tool, rt, mac = facts.core, facts.tool, facts.runtime, facts.macro
    adts = facts.all_adts()
    ck.units += ["diplomat_core.lib+hir", "diplomat_runtime.lib (MIR)", "diplomat_tool.lib", "diplomat.lib", "feature_tests/example generated bodies", "templates"]
    ck.rule("R1", "the std/diplomat spelling cannot reach a backend: no type reachable from hir::TypeContext mentions ast::StdlibOrDiplomat or ast::TypeName")
    ck.rule("R2", "the gate ignores the spelling except to reject: for every payload and position both spellings lower to the same HIR value, or one of them is rejected", exhaustive=True)
    ck.rule("R3", "canonicalisation: ffi_safe_version picks the pointer-niche spelling exactly for &T/Box<T> payloads and its result is always FFI-safe; the macro applies it exactly when the type is not FFI-safe", exhaustive=True)
    ck.rule("R4", "runtime flag/payload consistency: union arm `ok` is written/read only together with is_ok = true, `err` only with false; DiplomatOption<T> is DiplomatResult<T, ()> with a zero-sized err arm")
    ck.rule("R5", "record shape {payload union; bool is_ok} in every mirror; the per-method C result record emits the union iff a payload line is emitted")
    ck.rule("R6", "macro: Option<non-pointer> returns are rewritten to DiplomatResult<T,()> via ok_or(()).into(), Option<pointer> returns unchanged; holds in every generated body of the repo's bridges")
    ck.rule("R7", "every place that splits Option payloads into `nullable pointer` vs `record with flag` uses the same split {&T, Box<T>} (is_ffi_safe, ffi_safe_version, the macro's return arm); "
                  "is_ffi_safe table and the per-payload option record key shared with C05.R6 / C07.R2")
    ck.not_decided += ["behavioural equality for all values (runtime quantity)"]

    # ---------------- R1 type-graph non-interference
    edges = {}
    for p, a in core.adts.items():
        if a.get("kind") == "alias":
            edges[p] = [a.get("ty", "")]
            continue
        edges[p] = [f["ty"] for v in a.get("variants", []) for f in v["fields"]]
    names = sorted(edges, key=len, reverse=True)

    def mentions(ty):
        return [n for n in names if n in ty]
    root = "diplomat_core::hir::type_context::TypeContext"
    seen = set()
    stack = [root]
    bad = []
    while stack:
        x = stack.pop()
        if x in seen:
            continue
        seen.add(x)
        for ty in edges.get(x, []):
            if "ast::types::StdlibOrDiplomat" in ty or re.search(r"ast::types::TypeName\b", ty):
                bad.append((x, ty))
            for n in mentions(ty):
                if n not in seen:
                    stack.append(n)
    ck.expect(root in edges and len(seen) >= 25 and not bad, "R1", "TypeContext/no-spelling-reachable", "%d HIR types reachable, none carries the spelling" % len(seen),
              "HIR type %s carries AST spelling information (%s): backends could tell Option from DiplomatOption" % (bad[0] if bad else "?", len(seen)), None)
    for b in ("c", "cpp", "js", "dart", "kotlin", "nanobind", "demo_gen"):
        f = tool.fn("diplomat_tool::%s::run" % b)
        bad_in = [i for i in f["inputs"] if "syn::" in i or "diplomat_core::ast::" in i and "DocsUrlGenerator" not in i]
        ck.expect(not bad_in and any("TypeContext" in i for i in f["inputs"]), "R1", "%s::run/inputs" % b, str([i.split("::")[-1] for i in f["inputs"]]), "backend entry takes AST-level input %s" % bad_in, C.loc(f))

    # ---------------- R2 both spellings lower alike
    I = A.field_hook(A.Interp(core, cfg={"unsafe_references_in_callbacks": False}))
    orig = I.ev_mcall

    def ev_mcall(n, env, depth, _orig=orig):
        if n["m"] in ("lower_ident",):
            return [(A.Outcome(A.ok(A.UNK)), env)]
        if n["m"] in ("attr_from_ast", "validate", "set_item", "set_subitem", "finish"):
            return [(A.Outcome(A.UNK), env)]
        return _orig(n, env, depth)
    I.ev_mcall = ev_mcall
    payloads = {"prim": A.t_prim(), "named:S": A.t_named("S"), "named:N": A.t_named("N"), "ref(named:Q)": A.t_ref(A.t_named("Q")), "box(named:Q)": A.t_box(A.t_named("Q")),
                "named:Z": A.t_named("Z"), "unit": A.T_UNIT}

    def outcomes(pos, tyv):
        I.memo.clear()
        if pos == "param":
            I.position = "InputOnly"
            return I.call(LT, [tyv, A.UNK, F_, A.UNK])
        if pos == "field":
            I.position = "Everywhere"
            return I.call(LT, [tyv, A.UNK, F_, A.UNK])
        if pos == "out":
            I.position = "OutputOnly"
            return I.call(LO, [tyv, A.UNK, A.UNK, F_, F_])
        I.position = "OutputOnly"
        return I.call(LR, [A.some(tyv), F_, A.UNK, A.UNK])
    n2 = 0
    for pname, pv in payloads.items():
        for pos in ("param", "field", "out", "ret"):
            res = {}
            for std in (True, False):
                outs = outcomes(pos, A.t_opt(pv, std))
                ver = A.verdict(outs)
                vals = sorted({A.show(o.val) for o in outs if not o.pushes and o.ctl is None})
                res[std] = (ver, vals)
            n2 += 1
            (v1, a1), (v2, a2) = res[True], res[False]
            key = "%s/opt(%s)" % (pos, pname)
            if "reject" in (v1, v2) and not (v1 == "accept" and v2 == "accept"):
                ck.ok("R2", key, "std: %s, diplomat: %s (at most one spelling accepted)" % (v1, v2))
                continue
            ck.expect(a1 == a2, "R2", key, "both spellings lower to the same HIR value",
                      "Option<%s> and DiplomatOption<%s> in position %s are both accepted but lower differently: std -> %s ; diplomat -> %s" % (pname, pname, pos, a1[:1], a2[:1]), None)
    # Result spelling
    for pos in ("ret",):
        r_std = outcomes(pos, A.t_res(A.t_prim(), A.T_UNIT, True))
        r_dip = outcomes(pos, A.t_res(A.t_prim(), A.T_UNIT, False))
        a1 = sorted({A.show(o.val) for o in r_std if not o.pushes})
        a2 = sorted({A.show(o.val) for o in r_dip if not o.pushes})
        ck.expect(a1 == a2 and a1, "R2", "ret/result(prim,unit)", "Result and DiplomatResult lower alike", "Result / DiplomatResult returns lower differently: %s vs %s" % (a1[:1], a2[:1]), None)
    # a non-pointer Option return is the Nullable return kind in both spellings, a pointer Option an Infallible optional pointer
    for pname, pv, want in (("prim", A.t_prim(), "Nullable"), ("named:S", A.t_named("S"), "Nullable"), ("unit", A.T_UNIT, "Nullable"), ("box(named:Q)", A.t_box(A.t_named("Q")), "Infallible"), ("ref(named:Q)", A.t_ref(A.t_named("Q")), "Infallible")):
        for std in (True, False):
            outs = [o for o in outcomes("ret", A.t_opt(pv, std)) if not o.pushes and o.ctl is None]
            kinds = set()
            for o in outs:
                for x in C.sym_walk(o.val) if False else _walk_val(o.val):
                    if x[0] == "enum" and x[1].endswith("hir::methods::ReturnType"):
                        kinds.add(x[2])
            if not outs:
                continue  # rejected spelling
            ck.expect(kinds == {want}, "R2", "ret-kind/opt(%s),%s" % (pname, "std" if std else "dip"), want, "an %s<%s> return lowers to ReturnType::%s, expected %s" % ("Option" if std else "DiplomatOption", pname, sorted(kinds), want), None)

    # an accepted Option<non-pointer> parameter / field is Type::DiplomatOption(<the payload's own lowering>) in both spellings (the wrapper is what makes the macro's
    # {payload, is_ok} record and the backends' declarations agree); an Option of a pointer is the optional opaque, never DiplomatOption
    shp = dict(payloads)
    shp.update({"str": A.t_str("named", True), "pslice": A.t_pslice("named", True)})
    nwr = 0
    for pname, pv in shp.items():
        pointer = pname.startswith(("ref(", "box("))
        for pos in ("param", "field"):
            for std in (True, False):
                outs = [o for o in outcomes(pos, A.t_opt(pv, std)) if not o.pushes and o.ctl is None]
                if not outs:
                    continue
                nwr += 1
                shown = sorted({A.show(o.val) for o in outs})
                if pointer:
                    okw = all(sh.startswith("Ok(Opaque") for sh in shown)
                    want = "Ok(Opaque(.., Optional(true), ..))"
                else:
                    okw = all(sh.startswith("Ok(DiplomatOption(") for sh in shown)
                    want = "Ok(DiplomatOption(..))"
                ck.expect(okw, "R2", "%s/opt(%s),%s/wrapper" % (pos, pname, "std" if std else "dip"), shown[0][:60],
                          "an accepted %s<%s> in position %s lowers to %s, expected %s: the HIR no longer says the value is optional, so the generated declaration takes the bare payload "
                          "while the macro compiles the {payload, is_ok} record" % ("Option" if std else "DiplomatOption", pname, pos, shown[:1], want), None)
    if nwr < 10:
        ck.bad("R2", "opt-wrapper/floor", "only %d accepted optional shapes evaluated" % nwr)

    # ---------------- R3 canonicalisation
    shapes = {"prim": A.t_prim(), "named:S": A.t_named("S"), "ref(named:Q)": A.t_ref(A.t_named("Q")), "box(named:Q)": A.t_box(A.t_named("Q")), "str:borrowed,std": A.t_str("named", True),
              "pslice:borrowed,std": A.t_pslice("named", True), "opt(prim),std": A.t_opt(A.t_prim(), True)}
    I.memo.clear()
    for name, pv in shapes.items():
        for std in (True, False):
            x = A.t_opt(pv, std)
            outs = I.call("ast::types::TypeName::ffi_safe_version", [x])
            vals = {o.val for o in outs}
            pointer = name.startswith(("ref(", "box("))
            okv = len(vals) == 1
            v = next(iter(vals)) if vals else A.UNK
            spelled = v[3][1][2] if okv and v[0] == "enum" and v[2] == "Option" and len(v[3]) > 1 and v[3][1][0] == "enum" else None
            ck.expect(spelled == ("Stdlib" if pointer else "Diplomat"), "R3", "ffi_safe_version/opt(%s),%s" % (name, "std" if std else "dip"), str(spelled),
                      "ffi_safe_version(%s<%s>) is spelled %s; pointers must use the std niche form, everything else DiplomatOption, independent of the input spelling" % ("Option" if std else "DiplomatOption", name, spelled), None)
            safe = {o.val for o in I.call("ast::types::TypeName::is_ffi_safe", [v])} if okv else set()
            ck.expect(safe == {A.B(True)}, "R3", "is_ffi_safe(ffi_safe_version(opt(%s),%s))" % (name, "std" if std else "dip"), "true", "the canonical form of Option<%s> is itself not FFI-safe (%s)" % (name, A.show(v)), None)
    # macro: param_ty applies ffi_safe_version exactly when !is_ffi_safe
    pt = mac.fn("diplomat::param_ty")
    b = C.strip(C.fn_body(pt))
    okp = False
    for n in C.walk(C.fn_body(pt)):
        if n.get("k") == "if":
            c = C.strip(n["c"])
            neg = c.get("k") == "un" and c.get("op") == "Not"
            inner = C.strip(c["e"]) if neg else c
            if inner.get("k") == "mcall" and inner.get("m") == "is_ffi_safe":
                then_calls = [x.get("m") for x in C.walk(n["t"]) if x.get("k") == "mcall"]
                else_calls = [x.get("m") for x in C.walk(n["e"]) if x.get("k") == "mcall"] if n.get("e") else []
                if neg:
                    okp = "ffi_safe_version" in then_calls and "ffi_safe_version" not in else_calls
                else:
                    okp = "ffi_safe_version" in else_calls and "ffi_safe_version" not in then_calls
    for n in C.walk(C.fn_body(pt)):
        if n.get("k") == "match":
            with_fsv = [a for a in n["arms"] if any(x.get("k") == "mcall" and x.get("m") == "ffi_safe_version" for x in C.walk(a["b"]))]
            if len(with_fsv) == 1 and with_fsv[0].get("g"):
                g = C.strip(with_fsv[0]["g"])
                okp = okp or (g.get("k") == "un" and g.get("op") == "Not" and C.strip(g["e"]).get("k") == "mcall" and C.strip(g["e"]).get("m") == "is_ffi_safe")
    ck.expect(okp, "R3", "macro::param_ty/canonicalise-iff-unsafe", "", "param_ty no longer applies ffi_safe_version exactly to the types that are not FFI-safe", C.loc(pt))

    # ---------------- R4 runtime consistency
    res_adt = rt.adt("result::DiplomatResult")
    opt_alias = rt.adts.get("diplomat_runtime::result::DiplomatOption") or next((a for k_, a in rt.adts.items() if k_.split("::")[-1] == "DiplomatOption" and a.get("kind") == "alias"), None)
    ck.expect(bool(opt_alias) and opt_alias.get("kind") == "alias" and re.search(r"DiplomatResult<T, \(\)>", opt_alias.get("ty", "")) is not None, "R4", "DiplomatOption/alias", opt_alias.get("ty") if opt_alias else "", "DiplomatOption<T> is no longer DiplomatResult<T, ()>", None)
    lays = {tuple(l["args"]): l["layout"] for l in res_adt["layouts"]}
    unit_ok = [a for a, l in lays.items() if a[1] == "()" and a[0] != "()" and not (l["offsets"][1] == l["fields"][0]["size"] and l["fields"][0]["size"] == _sz(lays, a[0]))]
    ck.expect(not unit_ok and len(lays) > 100, "R4", "DiplomatResult<T,()>/unit-arm-zero-sized", "union is exactly as large as T; flag directly after it", "unit arm occupies payload space for %s" % unit_ok[:3], C.loc(res_adt))
    n_acc = 0
    for f in rt.fn_list:
        if not f["path"].startswith(("diplomat_runtime::result::", "<diplomat_runtime::result::")) and "diplomat_runtime::result::" not in f["path"]:
            continue
        mir = f.get("mir")
        if not mir or "blocks" not in mir:
            continue
        if re.search(r"DiplomatResultValue<", f.get("output") or "") or re.search(r"^&?(mut )?diplomat_runtime::result::DiplomatResultValue<", (f.get("inputs") or [""])[0]):
            continue    # accessor / constructor helpers of the bare union: judged where they are applied to a DiplomatResult (spliced into their callers below)
        fi = C.inline_mir(rt, f)
        mir = fi["mir"]
        m = MirFn(fi)
        # edges that establish the flag
        flag_edges = {}  # (a,b) -> True/False
        for bid, blk in m.cfg.blocks.items():
            if blk.get("cleanup") or blk["term"]["k"] != "switch":
                continue
            c = m.switch_cond(bid)
            t = blk["term"]
            is_flag = any(x[0] == "proj" and x[2] == ".is_ok" for x in sym_walk(c)) and not any(x[0] == "un" for x in sym_walk(c))
            is_discr = isinstance(c, tuple) and c[0] == "discr"
            if not (is_flag or is_discr):
                continue
            for s in m.cfg.succ[bid]:
                ev = m.edge_value(bid, s)
                if is_flag:
                    truth = (ev == "otherwise" and all(v == 0 for v, _ in t["targets"])) or (ev != "otherwise" and ev and all(v != 0 for v in ev))
                else:
                    # core::result::Result / Option discriminant: Ok = 0 (Result), Some = 1 (Option)
                    lty = mir["locals"][_root_local(c)]["ty"] if _root_local(c) is not None else ""
                    if "result::Result" in lty:
                        truth = ev != "otherwise" and ev == [0]
                    elif "option::Option" in lty:
                        truth = ev != "otherwise" and ev == [1]
                    else:
                        continue
                flag_edges[(bid, s)] = truth
        for b in mir["blocks"]:
            if b.get("cleanup"):
                continue
            arms = []
            for s in b["stmts"]:
                if s["k"] != "assign":
                    continue
                txt = []
                for pl in _places(s):
                    if any(e in (".ok", ".err") for e in (pl.get("p") or [])):
                        for x in sym_walk(m.sym_place({"l": pl["l"], "p": pl["p"]})):
                            if x[0] == "proj" and x[2] in (".ok", ".err") and isinstance(x[1], tuple) and x[1][0] == "proj" and x[1][2] == ".value":
                                txt.append(x[2][1:])
                # building a union value is judged by the constructor pairing below (flag constant in the same aggregate), not by the path rule
                arms += txt
            t = b["term"]
            if t["k"] == "call":
                for a in t["args"]:
                    pl = C.operand_place(a)
                    if pl and any(e in (".ok", ".err") for e in (pl.get("p") or [])):
                        for x in sym_walk(m.sym_place({"l": pl["l"], "p": pl["p"]})):
                            if x[0] == "proj" and x[2] in (".ok", ".err") and isinstance(x[1], tuple) and x[1][0] == "proj" and x[1][2] == ".value":
                                arms.append(x[2][1:])
            for arm in set(arms):
                n_acc += 1
                want = arm == "ok"
                # every path to this block must take a flag edge with truth == want (and none with the opposite)
                okp = True
                for p in m.paths(0, b["id"]):
                    seen_t = [flag_edges[(x, y)] for x, y in zip(p, p[1:]) if (x, y) in flag_edges]
                    if not seen_t or any(tt != want for tt in seen_t):
                        okp = False
                ck.expect(okp, "R4", "%s/bb%d/%s" % (f["path"], b["id"], arm), "arm `%s` only on the is_ok=%s edge" % (arm, want), "union arm `%s` is accessed on a path where is_ok is not known to be %s" % (arm, want), C.loc(f))
        # aggregates: flag constant agrees with the union arm built for the same value
        n_union = sum(1 for b in mir["blocks"] if not b.get("cleanup") for s in b["stmts"] if s["k"] == "assign" and s["rv"]["k"] == "agg" and s["rv"].get("union_field") in ("ok", "err"))
        n_paired = 0
        for b in mir["blocks"]:
            if b.get("cleanup"):
                continue
            for s in b["stmts"]:
                if s["k"] == "assign" and s["rv"]["k"] == "agg" and (s["rv"].get("adt") or "").endswith("result::DiplomatResult") and s["rv"].get("fnames"):
                    fl = dict(zip(s["rv"]["fnames"], s["rv"]["ops"]))
                    v = m.sym_op(fl["value"])
                    flag = m.sym_op(fl["is_ok"])
                    arm = v[3] if isinstance(v, tuple) and v[0] == "agg" else None
                    n_acc += 1
                    n_paired += 1 if arm else 0
                    ck.expect((arm, flag) in (("ok", ("const", "true")), ("err", ("const", "false"))), "R4", "%s/construct-%s" % (f["path"], arm), "is_ok = %s" % (flag,),
                              "DiplomatResult is built with union arm `%s` but is_ok = %s" % (arm, sym_show(flag)), C.loc(f, s.get("ln")))
        if n_union > n_paired:
            ck.bad("R4", "%s/union-without-flag" % f["path"], "%d payload union value(s) are built here but only %d are paired with an is_ok constant in the same DiplomatResult aggregate" % (n_union, n_paired), C.loc(f))
    if n_acc < 8:
        ck.bad("R4", "floor", "only %d union-arm accesses examined" % n_acc)

    # ---------------- R5 record shapes (C, C++ via C, Dart, Kotlin) + gen_result_ty data-flow
    capi = C.read_repo("tool/templates/c/capi.h.jinja")
    structs = cdecl.parse_structs(cdecl.expand(capi, cdecl.parse_macros(capi)))
    for nme in ("OptionU8", "OptionF64", "OptionStringView", "OptionU16View"):
        st = structs.get(nme)
        ok = bool(st) and len(st) == 2 and st[0]["kind"] == "union" and [x["name"] for x in st[0]["sub"]] == ["ok"] and st[1].get("ctype") == "bool" and st[1]["name"] == "is_ok"
        ck.expect(ok, "R5", "capi.h/" + nme, "{union{ok}; bool is_ok}", "%s is not {union {T ok;}; bool is_ok;}" % nme, "tool/templates/c/capi.h.jinja")
    g = tool.fn("c::ty::TyGenContext::gen_result_ty")
    body = C.fn_body(g)
    cond_ids = set()
    line_ids = set()
    for n in C.walk(body):
        if n.get("k") == "letst" and n["pat"].get("n") == "union_def":
            i0 = C.strip(n["init"])
            if i0.get("k") == "if":
                cond_ids = {x["id"] for x in C.walk(i0["c"]) if x.get("k") == "local"}
            elif i0.get("k") == "match":      # `match (ok_ty, err_ty) { (None, None) => .., _ => union }`
                cond_ids = {x["id"] for x in C.walk(i0["s"]) if x.get("k") == "local"}
        if n.get("k") == "letst" and n["pat"].get("n") in ("ok_line", "err_line"):
            i0 = C.strip(n["init"])
            if i0.get("k") == "if":
                c = C.strip(i0["c"])
                if c.get("k") == "let":
                    line_ids |= {x["id"] for x in C.walk(c["init"]) if x.get("k") == "local"}
            elif i0.get("k") == "match":      # `match ok_ty { Some(ok) => format!(..), None => String::new() }`
                line_ids |= {x["id"] for x in C.walk(i0["s"]) if x.get("k") == "local"}
            elif i0.get("k") == "mcall" and i0.get("m") in ("map", "map_or", "map_or_else", "unwrap_or_default", "unwrap_or_else", "unwrap_or"):
                line_ids |= {x["id"] for x in C.walk(i0["recv"]) if x.get("k") == "local" and x.get("n") in ("ok_ty", "err_ty")}
    ck.expect(cond_ids and cond_ids == line_ids, "R5", "c::gen_result_ty/union-iff-payload", "union emitted iff ok/err line emitted (same filtered values)",
              "the union of the per-method result record is emitted under a condition on different values (%s) than the payload lines (%s): zero-sized payloads get an empty union and shift is_ok" % (sorted(cond_ids), sorted(line_ids)), C.loc(g))
    lits = C.str_lits(body)
    ck.expect(any(re.search(r"\{union_def\}\s*bool is_ok;", s) for s in lits), "R5", "c::gen_result_ty/flag-after-union", "", "is_ok no longer follows the union in the per-method record", C.loc(g))
    # callers of gen_result_ty: the error payload handed over is decided by the return type's error alone, the success payload by its success type alone
    ncall = 0
    for cf in tool.fn_list:
        if "hir" not in cf or cf.get("exp") or not cf["path"].startswith("diplomat_tool::c::"):
            continue
        cdefs = None
        for n in C.walk(C.fn_body(cf)):
            if n.get("k") == "mcall" and n.get("m") == "gen_result_ty" and len(n.get("a") or []) >= 3:
                cdefs = cdefs or dict(flow.defs_of(cf))
                ncall += 1
                for pos, nm, other in ((2, "error", "SuccessType"),):
                    seen_, todo, deps = set(), [n["a"][pos]], []
                    while todo:
                        e_ = todo.pop()
                        for x in C.walk(e_):
                            if x.get("k") == "match" and (x.get("sadt") or "").endswith(other):
                                deps.append(x.get("ln"))
                            if x.get("k") == "local" and x.get("id") not in seen_:
                                seen_.add(x.get("id"))
                                d_ = cdefs.get(x.get("id"))
                                if d_ and d_[0] in ("expr", "destructure") and d_[1] is not None:
                                    # a binding of a match arm's own pattern is not a dependency on the scrutinee's other cases; a let-destructure of a match result is
                                    if d_[0] == "expr" or any(ls.get("k") == "letst" and x.get("id") in C.pat_bind_ids(ls["pat"]) for ls in C.walk(C.fn_body(cf))):
                                        todo.append(d_[1])
                    ck.expect(not deps, "R5", "%s/gen_result_ty-%s-independent#%d" % (C.norm_path(cf["path"]).split("::")[-1], nm, ncall), "the %s payload does not depend on the success type" % nm,
                              "the %s payload handed to gen_result_ty is chosen by a match on %s: for some success shapes (e.g. a write-returning method) the record loses its `err` member and C reads "
                              "the flag at the wrong offset" % (nm, other), C.loc(cf, n.get("ln")))
    if ncall < 1:
        ck.bad("R5", "c::gen_result_ty/callers-floor", "no caller of gen_result_ty found in the C backend")
    fl = tmpl.flat_file("dart/result.dart.jinja", resolve_includes=False)
    ck.expect(re.search(r"external ⟦\s*[\w.]+\s*⟧Union union;.*?@ffi\.Bool\(\)\s*external bool isOk;", fl, re.S) is not None, "R5", "dart/result", "union; @ffi.Bool isOk", "Dart result record shape changed", "tool/templates/dart/result.dart.jinja")
    for rel, exp in (("kotlin/Result.kt.jinja", ["union", "isOk"]), ("kotlin/Option.kt.jinja", ["value", "isOk"])):
        text = tmpl.flat_file(rel, resolve_includes=False)
        fo = re.search(r"listOf\((.*?)\)", text)
        ck.expect(bool(fo) and re.findall(r"\"([^\"]+)\"", fo.group(1)) == exp, "R5", rel, str(exp), "Kotlin record order is not %s" % exp, "tool/templates/" + rel)
    # C++ conversions: arms not crossed
    for fname in ("gen_c_to_cpp_for_return_type", "gen_c_to_cpp_for_type"):
        f = tool.fn("cpp::ty::TyGenContext::" + fname)
        for s in C.str_lits(C.fn_body(f)):
            m = re.search(r"\.is_ok\s*\?\s(.*?)\s:\s(.*)$", s, re.S)
            if not m:
                continue
            tb, eb = m.group(1), m.group(2)
            good = (".err" not in tb) and (".ok" not in eb) and ("Err<" not in tb) and ("Ok<" not in eb) and ("nullopt" not in tb)
            ck.expect(good, "R5", "cpp::%s/arms@%s" % (fname, s[:30]), "ok-branch reads .ok, else-branch .err/nullopt", "C++ result/option conversion crosses arms: `%s`" % s[:120], C.loc(f))

    f = tool.fn("cpp::ty::TyGenContext::gen_c_to_cpp_for_return_type")
    for n in C.walk(C.fn_body(f)):
        if n.get("k") == "letst" and n["pat"].get("k") == "bind" and n["pat"]["n"] in ("ok_conversion", "err_conversion", "conversion"):
            lits = [l_ for x in C.walk_inl(tool, n["init"], 1, exclude=[f["path"]]) for l_ in ([x["v"]] if x.get("k") == "lit" and x.get("t") == "str" else ([x.get("src", "")] if x.get("k") == "macro" and x.get("name") == "format" else []))
                    if re.search(r"\{var_name\}\.\w+", l_)]
            lits = [re.search(r"(\{var_name\}\.\w+)", l_).group(1) for l_ in lits]
            want = ".err" if n["pat"]["n"].startswith("err") else ".ok"
            ck.expect(lits and all(s.endswith("{var_name}" + want) for s in lits), "R5", "cpp::gen_c_to_cpp_for_return_type/%s" % n["pat"]["n"], str(lits), "`%s` reads %s, expected the `%s` arm" % (n["pat"]["n"], lits, want), C.loc(f, n.get("ln")))

    # ---------------- R6 macro return rewriting + corpus
    # find the match on ty.as_ref() inside the Option branch (in whichever function of the macro crate builds the return tokens)
    found = False
    gm = None
    for gmf in [f for f in mac.fn_list if "hir" in f and f.get("dk") != "Closure"]:
      for n in C.walk(C.fn_body(gmf)):
          if n.get("k") == "match" and (n.get("sadt") or "").endswith("ast::types::TypeName"):
              gm = gm or gmf
              arms = n["arms"]
              ptr_arm = [a for a in arms if any(v in ("Box", "Reference") for v in ([a["pat"].get("v")] + [x.get("v") for x in a["pat"].get("alts", [])]))]
              other = [a for a in arms if a["pat"].get("k") == "wild"]
              if ptr_arm and other:
                  found = True
                  srcs_o = " ".join(x.get("src", "") for x in C.walk(other[0]["b"]) if x.get("k") == "macro")
                  srcs_p = " ".join(x.get("src", "") for x in C.walk(ptr_arm[0]["b"]) if x.get("k") == "macro")
                  ok = "DiplomatResult<#ty, ()>" in srcs_o and ".ok_or(()).into()" in srcs_o and "DiplomatResult" not in srcs_p
                  ck.expect(ok, "R6", "macro::gen_custom_type_method/option-return", "non-pointer: DiplomatResult<T,()> + ok_or(()).into(); pointer: unchanged",
                            "Option return rewriting changed: non-pointer arm `%s` / pointer arm `%s`" % (srcs_o[:120], srcs_p[:80]), C.loc(gmf, n.get("ln")))
    ck.expect(found, "R6", "macro::gen_custom_type_method/option-return-anchor", "", "match on the Option payload not found in the macro crate", C.loc(gm) if gm else None)
    n6 = 0
    for unit in (facts.ft, facts.example):
        for f in unit.fn_list:
            if f.get("exp") != "diplomat::bridge" or not f.get("no_mangle"):
                continue
            out = f["output"]
            if not out.startswith("diplomat_runtime::result::DiplomatResult<"):
                continue
            m = MirFn(f)
            ret = m.sym_local(0)
            calls = [x[1] for x in sym_walk(ret) if x[0] == "call" and isinstance(x[1], str)]
            mod = f["path"].rsplit("::", 1)[0] + "::"
            user = [c for c in calls if c.startswith(mod)]
            if not user:
                continue
            uf = next((x for x in unit.fn_list if C.norm_path(x["path"]) == user[0]), None)
            uout = uf["output"] if uf else ""
            n6 += 1
            key = "%s::%s" % (unit.crate, f["name"])
            if uout.startswith("core::option::Option<"):
                ok = any(c.endswith("option::Option::ok_or") for c in calls) and any(c.endswith("Into<U>>::into") for c in calls)
                ck.expect(ok and out.endswith(", ()>"), "R6", key, "Option -> ok_or(()).into()", "Option-returning method is not converted with ok_or(()).into() into DiplomatResult<T,()>: %s" % sym_show(ret)[:100], C.loc(f))
            elif uout.startswith("core::result::Result<"):
                ok = any(c.endswith("Into<U>>::into") for c in calls) and not any(c.endswith("ok_or") for c in calls)
                ck.expect(ok, "R6", key, "Result -> .into()", "Result-returning method is not converted with .into(): %s" % sym_show(ret)[:100], C.loc(f))
            else:
                ck.ok("R6", key, "returns DiplomatResult directly", C.loc(f))
    if n6 < 20:
        ck.bad("R6", "corpus-floor", "only %d DiplomatResult-returning generated fns examined" % n6)

    # ---------------- R7 sibling classification of Option payloads
    TN = "diplomat_core::ast::types::TypeName"

    def inner_splits(f):
        """matches on TypeName nested inside an arm / if-let selecting TypeName::Option"""
        out = []

        def scan(n, in_opt):
            if not isinstance(n, dict):
                return
            k = n.get("k")
            if k == "match" and (n.get("sadt") or "").endswith("ast::types::TypeName"):
                if in_opt:
                    out.append(n)
                for arm in n["arms"]:
                    is_opt = (arm["pat"].get("v") or "").split("::")[-1] == "Option"
                    scan(arm.get("b"), in_opt or is_opt)
                    scan(arm.get("g"), in_opt)
                scan(n.get("s") or n.get("e"), in_opt)
                return
            if k == "if":
                opt_let = any(x.get("k") == "let" and isinstance(x.get("pat"), dict) and (x["pat"].get("v") or "").split("::")[-1] == "Option" for x in C.walk(n.get("c") or {}))
                scan(n.get("c"), in_opt)
                scan(n.get("t"), in_opt or opt_let)
                scan(n.get("e"), in_opt)
                return
            if k in ("iflet", "let") or n.get("pat"):
                pv = n.get("pat") if isinstance(n.get("pat"), dict) else None
                is_opt = bool(pv) and (pv.get("v") or "").split("::")[-1] == "Option" and "TypeName" in (pv.get("adt") or pv.get("v") or "TypeName")
                for c in C.children(n):
                    scan(c, in_opt or is_opt)
                return
            for c in C.children(n):
                scan(c, in_opt)
        scan(C.fn_body(f), False)
        return out
    sites = [("is_ffi_safe", core.fn("ast::types::TypeName::is_ffi_safe")), ("ffi_safe_version", core.fn("ast::types::TypeName::ffi_safe_version"))]
    sites += [("macro::return-tokens", f) for f in facts.macro.fn_list if "hir" in f and f.get("dk") != "Closure"]
    nsp = 0
    for label, f in sites:
        for mt in inner_splits(f):
            rows = C.decision_table(mt, adts, TN)
            first = sorted({v.variant for v, hits in rows if hits and hits[0][0] == 0 and v.variant})
            nsp += 1
            ck.expect(first == ["Box", "Reference"], "R7", "%s/pointer-like-payloads" % label, str(first),
                      "%s treats Option<%s> as a nullable pointer; only &T and Box<T> have the null niche the C side relies on (anything else is a record with a flag, laid out differently by rustc)" % (label, first), C.loc(f, mt.get("ln")))
    if nsp < 3:
        ck.bad("R7", "split-floor", "only %d Option payload classifications found (3 counted)" % nsp)
    import c05
    import c07
    sub = C.SubCheck(ck, "R7", "", ["R6"])
    c05.run(sub, facts)
    sub2 = C.SubCheck(ck, "R7", "", ["R2"], key_re=r"cache-key")
    c07.run(sub2, facts)
    import c08
    c08.js_result_buffer_rules(ck, "R5", facts)
    sub3 = C.SubCheck(ck, "R5", "", ["R5"], key_re=r"[Oo]ption")
    c08.run(sub3, facts)
    # size / align / offset handed to the option readers and writers at the positions the runtime declares them (C08.R8)
    c08.run(C.SubCheck(ck, "R5", "", ["R8"], key_re=r"[Oo]ption"), facts)
    # an Option<primitive> is never classified as its payload (C08.R9): a one-field struct holding one keeps its {payload, is_ok} record and its receive buffer
    c08.run(C.SubCheck(ck, "R5", "", ["R9"], key_re=r"classifies|classification"), facts)
    # C++ -> C: an optional argument is present exactly when the std::optional is engaged -- the flag of the record is `x.has_value()` and nothing else, for every payload kind
    cf = tool.fn("cpp::ty::TyGenContext::gen_cpp_to_c_for_type", optional=True)
    import flow as _fl10
    nopt = 0
    if cf is not None:
        cdefs = dict(_fl10.defs_of(cf))
        for m_ in C.walk(C.fn_body(cf)):
            if m_.get("k") != "macro" or m_.get("name") != "format":
                continue
            canon = C.macro_fmt_canon(m_) or ""
            if ", true" not in canon or ", false" not in canon or " ? " not in canon:
                continue
            nopt += 1
            cond = canon.split(" ? ", 1)[0].strip()
            conds = [cond]
            mph = re.fullmatch(r"\{(\w+)\}", cond)
            if mph:
                lid = next((lid_ for nm_, lid_ in C.free_locals(m_["inner"]) if nm_ == mph.group(1)), None)
                d_ = cdefs.get(lid)
                conds = [C.macro_fmt_canon(x) or "" for x in C.walk(d_[1]) if x.get("k") == "macro" and x.get("name") == "format"] if d_ and d_[0] == "expr" else []
            okc = bool(conds) and all(re.fullmatch(r"\(?\{[\w.]+\}\.has_value\(\)\)?", c_) for c_ in conds)
            ck.expect(okc, "R5", "cpp::gen_cpp_to_c_for_type/option-flag-is-has_value#%d" % nopt, "x.has_value()", "the C++ -> C conversion of an optional sets is_ok from %s: an engaged optional "
                      "(e.g. Some(\"\"), Some(&[])) can reach Rust as None" % conds, C.loc(cf, m_.get("ln")))
    if nopt < 1:
        ck.bad("R5", "cpp::gen_cpp_to_c_for_type/option-flag/floor", "no option record construction found in gen_cpp_to_c_for_type (1 counted)")
    # the JS size / alignment formula of an option record (payload then flag, C08.R2)
    c08.run(C.SubCheck(ck, "R5", "", ["R2"], key_re=r"DiplomatOption"), facts)
    # C++: every fallible / nullable return shape tests the flag before it builds the value (C02.R4)
    import c02
    c02.run(C.SubCheck(ck, "R5", "", ["R4"], key_re=r"tests-flag|flag"), facts)
    c02.run(C.SubCheck(ck, "R5", "", ["R6"], key_re=r"^result::"), facts)     # diplomat::result accessors look at their own arm / flag (C02.R6)


def _walk_val(v):
    st = [v]
    while st:
        x = st.pop()
        if isinstance(x, tuple):
            if x and isinstance(x[0], str):
                yield x
                for y in x[1:]:
                    if isinstance(y, tuple):
                        st.append(y)
            else:
                st.extend(y for y in x if isinstance(y, tuple))


def _sz(lays, prim):
    l = lays.get((prim, prim))
    return l["fields"][0]["size"] if l else None


def _root_local(c):
    for x in sym_walk(c):
        if x[0] in ("arg", "local", "phi"):
            return x[1]
    return None


def _places(s):
    out = [s["lhs"]]

    def rec(rv):
        k = rv.get("k")
        for key in ("op", "l", "r", "op1"):
            o = rv.get(key)
            if isinstance(o, dict):
                p = C.operand_place(o)
                if p:
                    out.append(p)
        if k in ("ref", "rawptr", "discr") and rv.get("place"):
            out.append(rv["place"])
        for o in rv.get("ops", []) or []:
            p = C.operand_place(o)
            if p:
                out.append(p)
    rec(s["rv"])
    return out

//! MIR bodies as JSON (full bodies for selected crates, call edges for all).
use crate::json::{s, J};
use crate::{def_path, ty_str};
use rustc_hir::def_id::LocalDefId;
use rustc_middle::mir::{self, Operand, Place, Rvalue, StatementKind, TerminatorKind};
use rustc_middle::ty::{self, TyCtxt, TypingEnv};

struct M<'a, 'tcx> {
    tcx: TyCtxt<'tcx>,
    body: &'a mir::Body<'tcx>,
    owner: LocalDefId,
}

pub fn dump_mir<'tcx>(tcx: TyCtxt<'tcx>, owner: LocalDefId, full: bool) -> J {
    let body = tcx.optimized_mir(owner.to_def_id());
    let m = M { tcx, body, owner };
    let mut calls = Vec::new();
    let mut blocks = Vec::new();
    for (bb, data) in body.basic_blocks.iter_enumerated() {
        let term = data.terminator();
        if let TerminatorKind::Call { func, .. } | TerminatorKind::TailCall { func, .. } = &term.kind {
            let c = m.callee(func);
            calls.push(c);
        }
        if !full {
            continue;
        }
        let mut stmts = Vec::new();
        for st in &data.statements {
            if let Some(j) = m.stmt(st) {
                stmts.push(j);
            }
        }
        blocks.push(J::Obj(vec![
            ("id", J::Int(bb.as_usize() as i128)),
            ("cleanup", if data.is_cleanup { J::Bool(true) } else { J::Null }),
            ("stmts", J::Arr(stmts)),
            ("term", m.term(term)),
        ]));
    }
    let mut o: Vec<(&'static str, J)> = vec![("calls", J::Arr(calls))];
    if full {
        let mut locals = Vec::new();
        for (l, d) in body.local_decls.iter_enumerated() {
            locals.push(J::Obj(vec![("l", J::Int(l.as_usize() as i128)), ("ty", s(ty_str(d.ty)))]));
        }
        let mut names = Vec::new();
        for v in &body.var_debug_info {
            if let mir::VarDebugInfoContents::Place(p) = v.value {
                names.push(J::Obj(vec![("n", s(v.name.to_string())), ("p", m.place(&p))]));
            }
        }
        o.push(("argc", J::Int(body.arg_count as i128)));
        o.push(("locals", J::Arr(locals)));
        o.push(("names", J::Arr(names)));
        o.push(("blocks", J::Arr(blocks)));
    }
    J::Obj(o)
}

impl<'a, 'tcx> M<'a, 'tcx> {
    fn line(&self, sp: rustc_span::Span) -> J {
        let sm = self.tcx.sess.source_map();
        let sp2 = if sp.from_expansion() { sp.source_callsite() } else { sp };
        J::Int(sm.lookup_char_pos(sp2.lo()).line as i128)
    }

    fn place(&self, p: &Place<'tcx>) -> J {
        let mut proj = Vec::new();
        for (base, elem) in p.iter_projections() {
            let st = match elem {
                mir::ProjectionElem::Deref => "*".to_string(),
                mir::ProjectionElem::Field(f, _) => {
                    let bt = base.ty(self.body, self.tcx);
                    let name = match bt.ty.kind() {
                        ty::Adt(adt, _) => {
                            let v = match bt.variant_index {
                                Some(v) => adt.variant(v),
                                None => {
                                    if adt.is_enum() {
                                        adt.variant(rustc_abi::VariantIdx::from_u32(0))
                                    } else {
                                        adt.non_enum_variant()
                                    }
                                }
                            };
                            v.fields.get(f).map(|fd| fd.name.to_string()).unwrap_or_else(|| f.as_usize().to_string())
                        }
                        _ => f.as_usize().to_string(),
                    };
                    format!(".{}", name)
                }
                mir::ProjectionElem::Index(l) => format!("[_{}]", l.as_usize()),
                mir::ProjectionElem::ConstantIndex { offset, from_end, .. } => {
                    format!("[{}{}]", if from_end { "-" } else { "" }, offset)
                }
                mir::ProjectionElem::Subslice { from, to, .. } => format!("[{}..{}]", from, to),
                mir::ProjectionElem::Downcast(name, idx) => {
                    format!("@{}", name.map(|n| n.to_string()).unwrap_or_else(|| idx.as_usize().to_string()))
                }
                mir::ProjectionElem::OpaqueCast(_) => "opaque".to_string(),
                mir::ProjectionElem::UnwrapUnsafeBinder(_) => "unwrapbinder".to_string(),
            };
            proj.push(s(st));
        }
        J::Obj(vec![("l", J::Int(p.local.as_usize() as i128)), ("p", if proj.is_empty() { J::Null } else { J::Arr(proj) })])
    }

    fn callee(&self, func: &Operand<'tcx>) -> J {
        if let Some((did, args)) = func.const_fn_def() {
            let mut o: Vec<(&'static str, J)> = vec![("p", s(def_path(self.tcx, did)))];
            let env = TypingEnv::post_analysis(self.tcx, self.owner);
            let r = if args.len() == self.tcx.generics_of(did).count() {
                std::panic::catch_unwind(std::panic::AssertUnwindSafe(|| {
                    ty::Instance::try_resolve(self.tcx, env, did, args)
                }))
            } else {
                Ok(Ok(None))
            };
            if let Ok(Ok(Some(inst))) = r {
                if inst.def_id() != did {
                    o.push(("ip", s(def_path(self.tcx, inst.def_id()))));
                }
            }
            if !args.is_empty() {
                o.push((
                    "ga",
                    J::Arr(args.iter().map(|a| s(crate::np!(a.to_string()))).collect()),
                ));
            }
            J::Obj(o)
        } else {
            J::Obj(vec![("indirect", self.operand(func))])
        }
    }

    fn operand(&self, op: &Operand<'tcx>) -> J {
        match op {
            Operand::Copy(p) => J::Obj(vec![("copy", self.place(p))]),
            Operand::Move(p) => J::Obj(vec![("move", self.place(p))]),
            Operand::Constant(c) => {
                let t = c.const_.ty();
                if let ty::FnDef(did, _) = *t.kind() {
                    J::Obj(vec![("fn", s(def_path(self.tcx, did)))])
                } else {
                    let txt = crate::np!(format!("{}", c.const_));
                    J::Obj(vec![("c", s(txt)), ("ty", s(ty_str(t)))])
                }
            }
            #[allow(unreachable_patterns)]
            other => J::Obj(vec![("other", s(format!("{:?}", other)))]),
        }
    }

    fn rvalue(&self, rv: &Rvalue<'tcx>) -> J {
        match rv {
            Rvalue::Use(op, _) => J::Obj(vec![("k", s("use")), ("op", self.operand(op))]),
            Rvalue::Repeat(op, _) => J::Obj(vec![("k", s("repeat")), ("op", self.operand(op))]),
            Rvalue::Ref(_, bk, p) => J::Obj(vec![
                ("k", s("ref")),
                ("mut", J::Bool(matches!(bk, mir::BorrowKind::Mut { .. }))),
                ("place", self.place(p)),
            ]),
            Rvalue::ThreadLocalRef(_) => J::Obj(vec![("k", s("tls"))]),
            Rvalue::RawPtr(kind, p) => J::Obj(vec![
                ("k", s("rawptr")),
                ("mut", J::Bool(matches!(kind, mir::RawPtrKind::Mut))),
                ("place", self.place(p)),
            ]),
            Rvalue::Cast(kind, op, t) => J::Obj(vec![
                ("k", s("cast")),
                ("ck", s(format!("{:?}", kind))),
                ("op", self.operand(op)),
                ("ty", s(ty_str(*t))),
            ]),
            Rvalue::BinaryOp(op, ab) => J::Obj(vec![
                ("k", s("bin")),
                ("op", s(format!("{:?}", op))),
                ("l", self.operand(&ab.0)),
                ("r", self.operand(&ab.1)),
            ]),
            Rvalue::UnaryOp(op, a) => {
                J::Obj(vec![("k", s("un")), ("op", s(format!("{:?}", op))), ("op1", self.operand(a))])
            }
            Rvalue::Discriminant(p) => J::Obj(vec![("k", s("discr")), ("place", self.place(p))]),
            Rvalue::Aggregate(kind, ops) => {
                let mut o: Vec<(&'static str, J)> = vec![("k", s("agg"))];
                match &**kind {
                    mir::AggregateKind::Adt(did, vidx, _, _, active) => {
                        let adt = self.tcx.adt_def(*did);
                        o.push(("adt", s(def_path(self.tcx, *did))));
                        let v = adt.variant(*vidx);
                        o.push(("variant", s(v.name.to_string())));
                        if let Some(a) = active {
                            o.push(("union_field", s(v.fields[*a].name.to_string())));
                        } else {
                            o.push(("fnames", J::Arr(v.fields.iter().map(|f| s(f.name.to_string())).collect())));
                        }
                    }
                    mir::AggregateKind::Tuple => o.push(("agg", s("tuple"))),
                    mir::AggregateKind::Array(_) => o.push(("agg", s("array"))),
                    mir::AggregateKind::Closure(did, _) => {
                        o.push(("agg", s("closure")));
                        o.push(("def", s(def_path(self.tcx, *did))));
                    }
                    mir::AggregateKind::RawPtr(..) => o.push(("agg", s("rawptr"))),
                    _ => o.push(("agg", s("other"))),
                }
                o.push(("ops", J::Arr(ops.iter().map(|x| self.operand(x)).collect())));
                J::Obj(o)
            }
            Rvalue::CopyForDeref(p) => J::Obj(vec![("k", s("use")), ("op", J::Obj(vec![("copy", self.place(p))]))]),
            Rvalue::WrapUnsafeBinder(op, _) => J::Obj(vec![("k", s("use")), ("op", self.operand(op))]),
            #[allow(unreachable_patterns)]
            other => J::Obj(vec![("k", s("other")), ("dbg", s(format!("{:?}", other)))]),
        }
    }

    fn stmt(&self, st: &mir::Statement<'tcx>) -> Option<J> {
        let exp = if st.source_info.span.from_expansion() { J::Bool(true) } else { J::Null };
        match &st.kind {
            StatementKind::Assign(b) => {
                let (p, rv) = &**b;
                Some(J::Obj(vec![
                    ("k", s("assign")),
                    ("lhs", self.place(p)),
                    ("rv", self.rvalue(rv)),
                    ("ln", self.line(st.source_info.span)),
                    ("exp", exp),
                ]))
            }
            StatementKind::SetDiscriminant { place, variant_index } => Some(J::Obj(vec![
                ("k", s("setdiscr")),
                ("lhs", self.place(place)),
                ("v", J::Int(variant_index.as_usize() as i128)),
            ])),
            StatementKind::Intrinsic(i) => match &**i {
                mir::NonDivergingIntrinsic::Assume(op) => {
                    Some(J::Obj(vec![("k", s("assume")), ("op", self.operand(op))]))
                }
                mir::NonDivergingIntrinsic::CopyNonOverlapping(c) => Some(J::Obj(vec![
                    ("k", s("copy_nonoverlapping")),
                    ("src", self.operand(&c.src)),
                    ("dst", self.operand(&c.dst)),
                    ("count", self.operand(&c.count)),
                    ("ln", self.line(st.source_info.span)),
                ])),
            },
            _ => None,
        }
    }

    fn unwind(&self, u: &mir::UnwindAction) -> J {
        match u {
            mir::UnwindAction::Cleanup(bb) => J::Int(bb.as_usize() as i128),
            _ => J::Null,
        }
    }

    fn term(&self, t: &mir::Terminator<'tcx>) -> J {
        let ln = self.line(t.source_info.span);
        let exp = if t.source_info.span.from_expansion() { J::Bool(true) } else { J::Null };
        match &t.kind {
            TerminatorKind::Goto { target } => J::Obj(vec![("k", s("goto")), ("t", J::Int(target.as_usize() as i128))]),
            TerminatorKind::SwitchInt { discr, targets } => {
                let mut ts = Vec::new();
                for (v, bb) in targets.iter() {
                    ts.push(J::Arr(vec![J::Int(v as i128), J::Int(bb.as_usize() as i128)]));
                }
                J::Obj(vec![
                    ("k", s("switch")),
                    ("discr", self.operand(discr)),
                    ("targets", J::Arr(ts)),
                    ("otherwise", J::Int(targets.otherwise().as_usize() as i128)),
                    ("ln", ln),
                ])
            }
            TerminatorKind::Return => J::Obj(vec![("k", s("return"))]),
            TerminatorKind::Unreachable => J::Obj(vec![("k", s("unreachable"))]),
            TerminatorKind::UnwindResume => J::Obj(vec![("k", s("resume"))]),
            TerminatorKind::UnwindTerminate(_) => J::Obj(vec![("k", s("terminate"))]),
            TerminatorKind::Drop { place, target, unwind, .. } => J::Obj(vec![
                ("k", s("drop")),
                ("place", self.place(place)),
                ("ty", s(ty_str(place.ty(self.body, self.tcx).ty))),
                ("t", J::Int(target.as_usize() as i128)),
                ("unwind", self.unwind(unwind)),
                ("ln", ln),
            ]),
            TerminatorKind::Call { func, args, destination, target, unwind, .. } => J::Obj(vec![
                ("k", s("call")),
                ("f", self.callee(func)),
                ("args", J::Arr(args.iter().map(|a| self.operand(&a.node)).collect())),
                ("dest", self.place(destination)),
                ("t", target.map(|t| J::Int(t.as_usize() as i128)).unwrap_or(J::Null)),
                ("unwind", self.unwind(unwind)),
                ("ln", ln),
                ("exp", exp),
            ]),
            TerminatorKind::TailCall { func, args, .. } => J::Obj(vec![
                ("k", s("tailcall")),
                ("f", self.callee(func)),
                ("args", J::Arr(args.iter().map(|a| self.operand(&a.node)).collect())),
            ]),
            TerminatorKind::Assert { cond, expected, msg, target, unwind } => J::Obj(vec![
                ("k", s("assert")),
                ("cond", self.operand(cond)),
                ("expected", J::Bool(*expected)),
                ("msg", s(format!("{:?}", msg).chars().take(60).collect::<String>())),
                ("t", J::Int(target.as_usize() as i128)),
                ("unwind", self.unwind(unwind)),
                ("ln", ln),
            ]),
            TerminatorKind::FalseEdge { real_target, .. } => {
                J::Obj(vec![("k", s("goto")), ("t", J::Int(real_target.as_usize() as i128))])
            }
            TerminatorKind::FalseUnwind { real_target, .. } => {
                J::Obj(vec![("k", s("goto")), ("t", J::Int(real_target.as_usize() as i128))])
            }
            other => J::Obj(vec![("k", s("other")), ("dbg", s(format!("{:?}", other).chars().take(80).collect::<String>()))]),
        }
    }
}

//! dipfacts: rustc_private fact extractor for the diplomat verification rules.
//! Invoked as RUSTC_WORKSPACE_WRAPPER: argv = [dipfacts, <rustc>, args...].
//! Contains no property logic: it dumps the resolved program (items, ADTs with
//! layouts, typed HIR expression trees, MIR) as one JSON file per compilation unit.
#![feature(rustc_private)]
#![allow(clippy::all)]

extern crate rustc_abi;
extern crate rustc_ast;
extern crate rustc_driver;
extern crate rustc_hir;
extern crate rustc_interface;
extern crate rustc_middle;
extern crate rustc_session;
extern crate rustc_span;

mod adts;
mod hirtree;
mod json;
mod mirdump;

use json::{s, J};
use rustc_driver::Compilation;
use rustc_hir::def::DefKind;
use rustc_hir::def_id::LOCAL_CRATE;
use rustc_middle::ty::TyCtxt;

/// Print with full definition paths: crate-name prefixed, untrimmed, not via re-exports.
#[macro_export]
macro_rules! np {
    ($e:expr) => {
        rustc_middle::ty::print::with_resolve_crate_name!(rustc_middle::ty::print::with_no_visible_paths!(
            rustc_middle::ty::print::with_no_trimmed_paths!($e)
        ))
    };
}

struct Cb;

impl rustc_driver::Callbacks for Cb {
    fn after_analysis<'tcx>(
        &mut self,
        _c: &rustc_interface::interface::Compiler,
        tcx: TyCtxt<'tcx>,
    ) -> Compilation {
        extract(tcx);
        Compilation::Continue
    }
}

pub fn ty_str<'tcx>(ty: rustc_middle::ty::Ty<'tcx>) -> String {
    np!(ty.to_string())
}

pub fn def_path<'tcx>(tcx: TyCtxt<'tcx>, did: rustc_hir::def_id::DefId) -> String {
    np!(tcx.def_path_str(did))
}

pub fn span_loc<'tcx>(tcx: TyCtxt<'tcx>, sp: rustc_span::Span) -> (String, usize) {
    let sm = tcx.sess.source_map();
    let sp = if sp.from_expansion() { sp.source_callsite() } else { sp };
    let lo = sm.lookup_char_pos(sp.lo());
    let name = format!("{}", lo.file.name.prefer_local_unconditionally());
    (name, lo.line)
}

/// Name of the outermost macro whose expansion produced `sp` (None for hand-written code).
pub fn outer_macro(sp: rustc_span::Span) -> Option<String> {
    if !sp.from_expansion() {
        return None;
    }
    let mut cur = sp;
    let mut name = None;
    let mut guard = 0;
    while cur.from_expansion() && guard < 64 {
        let d = cur.ctxt().outer_expn_data();
        match d.kind {
            rustc_span::ExpnKind::Macro(_, n) => name = Some(n.to_string()),
            rustc_span::ExpnKind::Desugaring(k) => {
                if name.is_none() {
                    name = Some(format!("desugar:{:?}", k));
                }
            }
            _ => {}
        }
        cur = d.call_site;
        guard += 1;
    }
    name
}

fn extract<'tcx>(tcx: TyCtxt<'tcx>) {
    let Ok(outdir) = std::env::var("DIPFACTS_OUT") else { return };
    let crate_name = tcx.crate_name(LOCAL_CRATE).to_string();
    let watched = [
        "diplomat_runtime",
        "diplomat_core",
        "diplomat",
        "diplomat_tool",
        "diplomat_feature_tests",
        "diplomat_example",
    ];
    let extra = std::env::var("DIPFACTS_CRATES").unwrap_or_default();
    if !watched.contains(&crate_name.as_str()) && !extra.split(',').any(|c| c == crate_name) {
        return;
    }
    let t0 = std::time::Instant::now();
    // features
    let mut feats: Vec<String> = Vec::new();
    for (k, v) in tcx.sess.config.iter() {
        if k.as_str() == "feature" {
            if let Some(v) = v {
                feats.push(v.to_string());
            }
        }
    }
    feats.sort();
    let crate_types: Vec<J> =
        tcx.crate_types().iter().map(|c| s(format!("{:?}", c))).collect();
    let is_bin = tcx.crate_types().iter().any(|c| format!("{:?}", c) == "Executable");

    let full_mir = matches!(
        crate_name.as_str(),
        "diplomat_runtime" | "diplomat_feature_tests" | "diplomat_example"
    ) || std::env::var("DIPFACTS_MIR").map(|v| v == "all").unwrap_or(false)
        || extra.split(',').any(|c| c == crate_name);

    let mut fns = Vec::new();
    let mut statics = Vec::new();
    let mut n_fn = 0usize;
    for ldid in tcx.hir_body_owners() {
        let did = ldid.to_def_id();
        let dk = tcx.def_kind(did);
        match dk {
            DefKind::Fn | DefKind::AssocFn | DefKind::Closure => {}
            DefKind::Static { .. } | DefKind::Const { .. } | DefKind::AssocConst { .. } => {
                // initialiser bodies of statics/consts (keyword tables etc.): HIR only
                let sp = tcx.def_span(did);
                if sp.from_expansion() {
                    continue;
                }
                let (file, line) = span_loc(tcx, sp);
                statics.push(J::Obj(vec![
                    ("path", s(def_path(tcx, did))),
                    ("dk", s(format!("{:?}", dk))),
                    ("file", s(file)),
                    ("line", J::Int(line as i128)),
                    ("hir", hirtree::dump_body(tcx, ldid)),
                ]));
                continue;
            }
            _ => continue,
        }
        n_fn += 1;
        let sp = tcx.def_span(did);
        let (file, line) = span_loc(tcx, sp);
        let mut o: Vec<(&'static str, J)> = vec![
            ("path", s(def_path(tcx, did))),
            ("dk", s(format!("{:?}", dk))),
            ("file", s(file)),
            ("line", J::Int(line as i128)),
        ];
        if let Some(m) = outer_macro(sp) {
            o.push(("exp", s(m)));
        }
        if matches!(dk, DefKind::Fn | DefKind::AssocFn) {
            let sig = tcx.fn_sig(did).instantiate_identity().skip_norm_wip().skip_binder();
            o.push(("inputs", J::Arr(sig.inputs().iter().map(|t| s(ty_str(*t))).collect())));
            o.push(("output", s(ty_str(sig.output()))));
            o.push(("abi", s(format!("{:?}", sig.abi()))));
            let cattrs = tcx.codegen_fn_attrs(did);
            if cattrs
                .flags
                .contains(rustc_middle::middle::codegen_fn_attrs::CodegenFnAttrFlags::NO_MANGLE)
            {
                o.push(("no_mangle", J::Bool(true)));
            }
            if let Some(n) = cattrs.symbol_name {
                o.push(("export_name", s(n.to_string())));
            }
            o.push(("name", s(tcx.item_name(did).to_string())));
            o.push(("vis", s(format!("{:?}", tcx.visibility(did)))));
            // parent impl / trait
            if let Some(parent) = tcx.opt_parent(did) {
                let pk = tcx.def_kind(parent);
                if let DefKind::Impl { of_trait } = pk {
                    let self_ty = tcx.type_of(parent).instantiate_identity().skip_norm_wip();
                    o.push(("impl_self", s(ty_str(self_ty))));
                    if of_trait {
                        let tr = tcx.impl_trait_ref(parent).instantiate_identity().skip_norm_wip();
                        o.push(("impl_trait", s(def_path(tcx, tr.def_id))));
                    }
                }
            }
            // param names
            let body = tcx.hir_body_owned_by(ldid);
            let mut pn = Vec::new();
            for p in body.params {
                pn.push(hirtree::pat_simple_name(p.pat));
            }
            o.push(("params", J::Arr(pn.into_iter().map(s).collect())));
        }
        if !matches!(dk, DefKind::Closure) {
            o.push(("hir", hirtree::dump_body(tcx, ldid)));
        }
        if tcx.is_mir_available(did) {
            // path rules of C04 (worklist exhaustion) need whole bodies of the lifetime-graph code of diplomat_core
            let dp = def_path(tcx, did);
            let full_here = full_mir || FULL_MIR_PATHS.iter().any(|p| dp.contains(p));
            o.push(("mir", mirdump::dump_mir(tcx, ldid, full_here)));
        }
        fns.push(J::Obj(o));
    }

    let adts = adts::dump_adts(tcx, &crate_name);

    let root = J::Obj(vec![
        ("crate", s(crate_name.clone())),
        ("crate_types", J::Arr(crate_types)),
        ("features", J::Arr(feats.iter().map(|f| s(f.clone())).collect())),
        ("n_fn", J::Int(n_fn as i128)),
        ("full_mir", J::Bool(full_mir)),
        ("prims", adts::dump_prim_layouts(tcx)),
        ("adts", adts),
        ("fns", J::Arr(fns)),
        ("statics", J::Arr(statics)),
        ("extract_ms", J::Int(t0.elapsed().as_millis() as i128)),
    ]);
    let mut out = String::with_capacity(1 << 20);
    root.write(&mut out);
    let tag = if is_bin { "bin" } else { "lib" };
    let hir_feat = if feats.iter().any(|f| f == "hir") { "+hir" } else { "" };
    let fname = format!("{}/{}.{}{}.json", outdir, crate_name, tag, hir_feat);
    let tmp = format!("{}.tmp{}", fname, std::process::id());
    std::fs::write(&tmp, out).expect("dipfacts: cannot write fact file");
    std::fs::rename(&tmp, &fname).expect("dipfacts: cannot rename fact file");
}

/// Modules outside the full-MIR crates whose functions are dumped with whole MIR bodies.
const FULL_MIR_PATHS: &[&str] = &["::hir::lifetimes::", "::hir::methods::"];

fn main() {
    let mut args: Vec<String> = std::env::args().collect();
    // RUSTC_WORKSPACE_WRAPPER passes the real rustc path as argv[1].
    if args.len() > 1 && (args[1].ends_with("rustc") || args[1].contains("/rustc")) {
        args.remove(1);
    }
    rustc_driver::run_compiler(&args, &mut Cb);
}

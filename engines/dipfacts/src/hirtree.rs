//! Typed, name-resolved HIR expression trees as JSON.
use crate::json::{s, J};
use crate::{def_path, ty_str};
use rustc_hir as hir;
use rustc_hir::def::{DefKind, Res};
use rustc_hir::def_id::{DefId, LocalDefId};
use rustc_middle::ty::{self, TyCtxt, TypeckResults, TypingEnv};
use rustc_span::{ExpnKind, Span, SyntaxContext};

pub fn pat_simple_name(p: &hir::Pat<'_>) -> String {
    match p.kind {
        hir::PatKind::Binding(_, _, id, _) => id.name.to_string(),
        hir::PatKind::Wild => "_".into(),
        _ => "<pat>".into(),
    }
}

struct Cx<'tcx> {
    tcx: TyCtxt<'tcx>,
    owner: LocalDefId,
    tr: &'tcx TypeckResults<'tcx>,
    cur: SyntaxContext,
}

pub fn dump_body<'tcx>(tcx: TyCtxt<'tcx>, owner: LocalDefId) -> J {
    let body = tcx.hir_body_owned_by(owner);
    let tr = tcx.typeck(owner);
    let mut cx = Cx { tcx, owner, tr, cur: body.value.span.ctxt() };
    let mut params = Vec::new();
    for p in body.params {
        params.push(cx.pat(p.pat));
    }
    J::Obj(vec![("params", J::Arr(params)), ("body", cx.expr(body.value))])
}

impl<'tcx> Cx<'tcx> {
    fn line(&self, sp: Span) -> J {
        let sm = self.tcx.sess.source_map();
        let sp = if sp.from_expansion() { sp.source_callsite() } else { sp };
        J::Int(sm.lookup_char_pos(sp.lo()).line as i128)
    }

    fn adt_of(&self, t: ty::Ty<'tcx>) -> Option<(ty::AdtDef<'tcx>, ty::GenericArgsRef<'tcx>)> {
        let mut t = t;
        loop {
            match t.kind() {
                ty::Ref(_, inner, _) => t = *inner,
                ty::Adt(a, args) => {
                    if a.is_box() {
                        t = args.type_at(0);
                    } else {
                        return Some((*a, args));
                    }
                }
                _ => return None,
            }
        }
    }

    fn resolve_callee(&self, did: DefId, hir_id: hir::HirId) -> Option<String> {
        if !matches!(self.tcx.def_kind(did), DefKind::Fn | DefKind::AssocFn) {
            return None;
        }
        let args = self.tr.node_args(hir_id);
        if args.len() != self.tcx.generics_of(did).count() {
            return None;
        }
        let env = TypingEnv::post_analysis(self.tcx, self.owner);
        let r = std::panic::catch_unwind(std::panic::AssertUnwindSafe(|| {
            ty::Instance::try_resolve(self.tcx, env, did, args)
        }));
        match r {
            Ok(Ok(Some(inst))) => {
                let rd = inst.def_id();
                if rd != did {
                    Some(def_path(self.tcx, rd))
                } else {
                    None
                }
            }
            _ => None,
        }
    }

    fn res(&self, res: Res, hir_id: hir::HirId) -> J {
        match res {
            Res::Local(hid) => J::Obj(vec![
                ("k", s("local")),
                ("n", s(self.tcx.hir_name(hid).to_string())),
                ("id", J::Int(hid.local_id.as_u32() as i128)),
            ]),
            Res::Def(dk, did) => {
                let mut o: Vec<(&'static str, J)> = vec![
                    ("k", s("def")),
                    ("dk", s(format!("{:?}", dk))),
                    ("p", s(def_path(self.tcx, did))),
                ];
                if let DefKind::Ctor(..) = dk {
                    let parent = self.tcx.parent(did);
                    o.push(("ctor", s(def_path(self.tcx, parent))));
                }
                if let Some(ip) = self.resolve_callee(did, hir_id) {
                    o.push(("ip", s(ip)));
                }
                if matches!(dk, DefKind::Fn | DefKind::AssocFn) {
                    let args = self.tr.node_args(hir_id);
                    if !args.is_empty() {
                        o.push(("ga", J::Arr(args.iter().map(|a| s(crate::np!(a.to_string()))).collect())));
                    }
                }
                J::Obj(o)
            }
            Res::SelfCtor(_) => J::Obj(vec![("k", s("def")), ("dk", s("SelfCtor"))]),
            other => J::Obj(vec![("k", s("res")), ("v", s(format!("{:?}", other)))]),
        }
    }

    fn lit(&self, l: &hir::Lit, negated: bool) -> J {
        use rustc_ast::LitKind::*;
        let (t, v) = match l.node {
            Str(sym, _) => ("str", J::Str(sym.to_string())),
            ByteStr(b, _) => ("bytestr", J::Str(String::from_utf8_lossy(b.as_byte_str()).to_string())),
            CStr(b, _) => ("cstr", J::Str(String::from_utf8_lossy(b.as_byte_str()).to_string())),
            Byte(b) => ("byte", J::Int(b as i128)),
            Char(c) => ("char", J::Str(c.to_string())),
            Int(n, _) => ("int", J::Int(if negated { -(n.get() as i128) } else { n.get() as i128 })),
            Float(sym, _) => ("float", J::Str(format!("{}{}", if negated { "-" } else { "" }, sym))),
            Bool(b) => ("bool", J::Bool(b)),
            Err(_) => ("err", J::Null),
        };
        J::Obj(vec![("k", s("lit")), ("t", s(t)), ("v", v)])
    }

    fn pat(&mut self, p: &'tcx hir::Pat<'tcx>) -> J {
        use hir::PatKind::*;
        match p.kind {
            Missing => J::Obj(vec![("k", s("wild"))]),
            Wild => J::Obj(vec![("k", s("wild"))]),
            Never => J::Obj(vec![("k", s("never"))]),
            Binding(mode, hid, id, sub) => J::Obj(vec![
                ("k", s("bind")),
                ("n", s(id.name.to_string())),
                ("id", J::Int(hid.local_id.as_u32() as i128)),
                ("mode", s(format!("{:?}", mode))),
                ("sub", sub.map(|x| self.pat(x)).unwrap_or(J::Null)),
            ]),
            Struct(ref qpath, fields, rest) => {
                let res = self.tr.qpath_res(qpath, p.hir_id);
                let pty = self.tr.pat_ty(p);
                let mut o = self.variant_head(pty, res);
                let mut fl = Vec::new();
                for f in fields {
                    fl.push(J::Obj(vec![("n", s(f.ident.name.to_string())), ("p", self.pat(f.pat))]));
                }
                o.push(("fields", J::Arr(fl)));
                o.push(("rest", J::Bool(rest.is_some())));
                J::Obj(o)
            }
            TupleStruct(ref qpath, pats, dd) => {
                let res = self.tr.qpath_res(qpath, p.hir_id);
                let pty = self.tr.pat_ty(p);
                let mut o = self.variant_head(pty, res);
                o.push(("sub", J::Arr(pats.iter().map(|x| self.pat(x)).collect())));
                if let Some(pos) = dd.as_opt_usize() {
                    o.push(("dd", J::Int(pos as i128)));
                }
                J::Obj(o)
            }
            Or(pats) => J::Obj(vec![("k", s("or")), ("alts", J::Arr(pats.iter().map(|x| self.pat(x)).collect()))]),
            Tuple(pats, dd) => {
                let mut o = vec![("k", s("tuple")), ("sub", J::Arr(pats.iter().map(|x| self.pat(x)).collect()))];
                if let Some(pos) = dd.as_opt_usize() {
                    o.push(("dd", J::Int(pos as i128)));
                }
                J::Obj(o)
            }
            Box(x) | Deref(x) | Ref(x, _, _) => J::Obj(vec![("k", s("ref")), ("sub", self.pat(x))]),
            Expr(pe) => self.pat_expr(pe, p),
            Guard(x, g) => J::Obj(vec![("k", s("guardpat")), ("sub", self.pat(x)), ("g", self.expr(g))]),
            Range(lo, hi, _) => J::Obj(vec![
                ("k", s("range")),
                ("lo", lo.map(|x| self.pat_expr(x, p)).unwrap_or(J::Null)),
                ("hi", hi.map(|x| self.pat_expr(x, p)).unwrap_or(J::Null)),
            ]),
            Slice(a, mid, b) => J::Obj(vec![
                ("k", s("slice")),
                ("pre", J::Arr(a.iter().map(|x| self.pat(x)).collect())),
                ("mid", mid.map(|x| self.pat(x)).unwrap_or(J::Null)),
                ("post", J::Arr(b.iter().map(|x| self.pat(x)).collect())),
            ]),
            Err(_) => J::Obj(vec![("k", s("err"))]),
        }
    }

    fn variant_head(&self, pty: ty::Ty<'tcx>, res: Res) -> Vec<(&'static str, J)> {
        let mut o: Vec<(&'static str, J)> = vec![("k", s("variant"))];
        if let Some((adt, _)) = self.adt_of(pty) {
            o.push(("adt", s(def_path(self.tcx, adt.did()))));
            let ok = matches!(
                res,
                Res::Def(DefKind::Variant | DefKind::Struct | DefKind::Union | DefKind::Ctor(..) | DefKind::TyAlias | DefKind::AssocTy, _)
                    | Res::SelfTyAlias { .. }
                    | Res::SelfTyParam { .. }
                    | Res::SelfCtor(_)
            );
            if ok {
                let v = std::panic::catch_unwind(std::panic::AssertUnwindSafe(|| adt.variant_of_res(res).name.to_string()));
                if let Ok(v) = v {
                    o.push(("v", s(v)));
                }
            }
            if adt.is_enum() {
                o.push(("enum", J::Bool(true)));
            }
        } else {
            o.push(("adt", s(format!("?{}", ty_str(pty)))));
        }
        o
    }

    fn pat_expr(&mut self, pe: &'tcx hir::PatExpr<'tcx>, p: &'tcx hir::Pat<'tcx>) -> J {
        match pe.kind {
            hir::PatExprKind::Lit { lit, negated } => self.lit(&lit, negated),
            hir::PatExprKind::Path(ref qpath) => {
                let res = self.tr.qpath_res(qpath, pe.hir_id);
                match res {
                    Res::Def(DefKind::Ctor(..) | DefKind::Variant | DefKind::Struct, _) | Res::SelfCtor(_) => {
                        let pty = self.tr.pat_ty(p);
                        let mut o = self.variant_head(pty, res);
                        o.push(("sub", J::Arr(vec![])));
                        J::Obj(o)
                    }
                    Res::Def(_, did) => J::Obj(vec![("k", s("constpat")), ("p", s(def_path(self.tcx, did)))]),
                    other => J::Obj(vec![("k", s("constpat")), ("p", s(format!("{:?}", other)))]),
                }
            }
        }
    }

    fn block(&mut self, b: &'tcx hir::Block<'tcx>) -> J {
        let mut stmts = Vec::new();
        for st in b.stmts {
            match st.kind {
                hir::StmtKind::Let(l) => stmts.push(self.let_stmt(l)),
                hir::StmtKind::Item(_) => {}
                hir::StmtKind::Expr(e) => stmts.push(self.expr(e)),
                hir::StmtKind::Semi(e) => stmts.push(J::Obj(vec![("k", s("semi")), ("e", self.expr(e))])),
            }
        }
        J::Obj(vec![
            ("k", s("block")),
            ("s", J::Arr(stmts)),
            ("e", b.expr.map(|e| self.expr(e)).unwrap_or(J::Null)),
            ("unsafe", if matches!(b.rules, hir::BlockCheckMode::UnsafeBlock(_)) { J::Bool(true) } else { J::Null }),
        ])
    }

    fn let_stmt(&mut self, l: &'tcx hir::LetStmt<'tcx>) -> J {
        let ity = l.init.map(|e| s(ty_str(self.tr.expr_ty(e))));
        J::Obj(vec![
            ("k", s("letst")),
            ("pat", self.pat(l.pat)),
            ("init", l.init.map(|e| self.expr(e)).unwrap_or(J::Null)),
            ("ty", ity.unwrap_or(J::Null)),
            ("els", l.els.map(|b| self.block(b)).unwrap_or(J::Null)),
            ("ln", self.line(l.span)),
        ])
    }

    fn expr(&mut self, e: &'tcx hir::Expr<'tcx>) -> J {
        let ectxt = e.span.ctxt();
        if ectxt != self.cur {
            let mut sp = e.span;
            let mut last_macro: Option<(String, Span)> = None;
            let mut found = false;
            let mut guard = 0;
            while sp.from_expansion() && guard < 64 {
                let d = sp.ctxt().outer_expn_data();
                if let ExpnKind::Macro(_, name) = d.kind {
                    let full = name.to_string();
                    let short = full.rsplit("::").next().unwrap_or(&full).to_string();
                    last_macro = Some((short, d.call_site));
                }
                sp = d.call_site;
                guard += 1;
                if sp.ctxt() == self.cur {
                    found = true;
                    break;
                }
            }
            let old = self.cur;
            self.cur = ectxt;
            let inner = self.expr_inner(e);
            self.cur = old;
            if found {
                if let Some((name, cs)) = last_macro {
                    let sm = self.tcx.sess.source_map();
                    let mut snip = sm.span_to_snippet(cs).unwrap_or_default();
                    if snip.len() > 6000 {
                        let mut cut = 6000;
                        while !snip.is_char_boundary(cut) {
                            cut -= 1;
                        }
                        snip.truncate(cut);
                    }
                    let never = self.tr.expr_ty_opt(e).map(|t| t.is_never()).unwrap_or(false);
                    return J::Obj(vec![
                        ("k", s("macro")),
                        ("name", s(name)),
                        ("src", s(snip)),
                        ("nv", if never { J::Bool(true) } else { J::Null }),
                        ("ln", self.line(cs)),
                        ("inner", inner),
                    ]);
                }
            }
            return inner;
        }
        self.expr_inner(e)
    }

    fn expr_inner(&mut self, e: &'tcx hir::Expr<'tcx>) -> J {
        use hir::ExprKind::*;
        let never = self.tr.expr_ty_opt(e).map(|t| t.is_never()).unwrap_or(false);
        let mut o: Vec<(&'static str, J)> = match e.kind {
            ConstBlock(_) => vec![("k", s("constblock"))],
            Array(xs) => vec![("k", s("array")), ("a", J::Arr(xs.iter().map(|x| self.expr(x)).collect()))],
            Call(f, args) => {
                let mut o = vec![("k", s("call"))];
                let fj = self.expr(f);
                // convenience: callee path
                if let hir::ExprKind::Path(ref qp) = f.kind {
                    if let Res::Def(dk, did) = self.tr.qpath_res(qp, f.hir_id) {
                        o.push(("p", s(def_path(self.tcx, did))));
                        if let DefKind::Ctor(..) = dk {
                            o.push(("ctor", s(def_path(self.tcx, self.tcx.parent(did)))));
                        } else if let Some(ip) = self.resolve_callee(did, f.hir_id) {
                            o.push(("ip", s(ip)));
                        }
                    }
                }
                o.push(("f", fj));
                o.push(("a", J::Arr(args.iter().map(|x| self.expr(x)).collect())));
                o.push(("ty", s(ty_str(self.tr.expr_ty(e)))));
                o.push(("ln", self.line(e.span)));
                o
            }
            MethodCall(seg, recv, args, _) => {
                let mut o = vec![("k", s("mcall")), ("m", s(seg.ident.name.to_string()))];
                if let Some(did) = self.tr.type_dependent_def_id(e.hir_id) {
                    o.push(("p", s(def_path(self.tcx, did))));
                    if let Some(ip) = self.resolve_callee(did, e.hir_id) {
                        o.push(("ip", s(ip)));
                    }
                }
                o.push(("rty", s(ty_str(self.tr.expr_ty_adjusted(recv)))));
                o.push(("recv", self.expr(recv)));
                o.push(("a", J::Arr(args.iter().map(|x| self.expr(x)).collect())));
                o.push(("ty", s(ty_str(self.tr.expr_ty(e)))));
                o.push(("ln", self.line(e.span)));
                o
            }
            Use(x, _) => vec![("k", s("use")), ("e", self.expr(x))],
            Tup(xs) => vec![("k", s("tup")), ("a", J::Arr(xs.iter().map(|x| self.expr(x)).collect()))],
            Binary(op, a, b) => vec![
                ("k", s("bin")),
                ("op", s(format!("{:?}", op.node))),
                ("l", self.expr(a)),
                ("r", self.expr(b)),
            ],
            Unary(op, a) => vec![("k", s("un")), ("op", s(format!("{:?}", op))), ("e", self.expr(a))],
            Lit(l) => {
                return self.lit(&l, false);
            }
            Cast(x, _) => vec![("k", s("cast")), ("e", self.expr(x)), ("ty", s(ty_str(self.tr.expr_ty(e)))), ("from", s(ty_str(self.tr.expr_ty(x))))],
            Type(x, _) => vec![("k", s("type")), ("e", self.expr(x))],
            DropTemps(x) => return self.expr(x),
            Let(l) => vec![
                ("k", s("let")),
                ("pat", self.pat(l.pat)),
                ("init", self.expr(l.init)),
                ("ity", s(ty_str(self.tr.expr_ty(l.init)))),
            ],
            If(c, t, el) => vec![
                ("k", s("if")),
                ("c", self.expr(c)),
                ("t", self.expr(t)),
                ("e", el.map(|x| self.expr(x)).unwrap_or(J::Null)),
                ("ln", self.line(e.span)),
            ],
            Loop(b, _, src, _) => vec![("k", s("loop")), ("src", s(format!("{:?}", src))), ("b", self.block(b))],
            Match(scrut, arms, src) => {
                // for-loop desugaring
                if let hir::MatchSource::ForLoopDesugar = src {
                    if let Some(j) = self.try_for(e, scrut, arms) {
                        return j;
                    }
                }
                if let hir::MatchSource::TryDesugar(_) = src {
                    if let hir::ExprKind::Call(_, [inner]) = scrut.kind {
                        return J::Obj(vec![("k", s("try")), ("e", self.expr(inner)), ("ln", self.line(e.span))]);
                    }
                }
                let sty = self.tr.expr_ty(scrut);
                let mut o = vec![
                    ("k", s("match")),
                    ("src", s(format!("{:?}", src))),
                    ("sty", s(ty_str(sty))),
                ];
                if let Some((adt, _)) = self.adt_of(sty) {
                    o.push(("sadt", s(def_path(self.tcx, adt.did()))));
                }
                o.push(("s", self.expr(scrut)));
                let mut aj = Vec::new();
                for a in arms {
                    aj.push(J::Obj(vec![
                        ("pat", self.pat(a.pat)),
                        ("g", a.guard.map(|g| self.expr(g)).unwrap_or(J::Null)),
                        ("b", self.expr(a.body)),
                        ("ln", self.line(a.span)),
                    ]));
                }
                o.push(("arms", J::Arr(aj)));
                o.push(("ln", self.line(e.span)));
                o
            }
            Closure(c) => {
                let body = self.tcx.hir_body(c.body);
                let mut ps = Vec::new();
                for p in body.params {
                    ps.push(self.pat(p.pat));
                }
                vec![
                    ("k", s("closure")),
                    ("def", s(def_path(self.tcx, c.def_id.to_def_id()))),
                    ("params", J::Arr(ps)),
                    ("body", self.expr(body.value)),
                ]
            }
            Block(b, _) => return {
                let mut j = self.block(b);
                if never {
                    if let J::Obj(ref mut v) = j {
                        v.push(("nv", J::Bool(true)));
                    }
                }
                j
            },
            Assign(l, r, _) => vec![("k", s("assign")), ("l", self.expr(l)), ("r", self.expr(r)), ("ln", self.line(e.span))],
            AssignOp(op, l, r) => vec![
                ("k", s("assignop")),
                ("op", s(format!("{:?}", op.node))),
                ("l", self.expr(l)),
                ("r", self.expr(r)),
                ("ln", self.line(e.span)),
            ],
            Field(x, id) => vec![
                ("k", s("field")),
                ("n", s(id.name.to_string())),
                ("e", self.expr(x)),
                ("bty", s(ty_str(self.tr.expr_ty_adjusted(x)))),
            ],
            Index(a, b, _) => vec![("k", s("index")), ("e", self.expr(a)), ("i", self.expr(b)), ("bty", s(ty_str(self.tr.expr_ty_adjusted(a)))), ("ln", self.line(e.span))],
            Path(ref qp) => {
                let res = self.tr.qpath_res(qp, e.hir_id);
                return self.res(res, e.hir_id);
            }
            AddrOf(_, m, x) => vec![("k", s("addr")), ("mut", J::Bool(m.is_mut())), ("e", self.expr(x))],
            Break(_, x) => vec![("k", s("break")), ("e", x.map(|x| self.expr(x)).unwrap_or(J::Null))],
            Continue(_) => vec![("k", s("continue"))],
            Ret(x) => vec![("k", s("ret")), ("e", x.map(|x| self.expr(x)).unwrap_or(J::Null))],
            Become(x) => vec![("k", s("become")), ("e", self.expr(x))],
            InlineAsm(_) => vec![("k", s("asm"))],
            OffsetOf(..) => vec![("k", s("offsetof"))],
            Struct(qp, fields, tail) => {
                let res = self.tr.qpath_res(qp, e.hir_id);
                let ety = self.tr.expr_ty(e);
                let mut o = self.variant_head(ety, res);
                o[0] = ("k", s("struct"));
                let mut fl = Vec::new();
                for f in fields {
                    fl.push(J::Obj(vec![("n", s(f.ident.name.to_string())), ("e", self.expr(f.expr))]));
                }
                o.push(("fields", J::Arr(fl)));
                if let hir::StructTailExpr::Base(b) = tail {
                    o.push(("base", self.expr(b)));
                }
                o.push(("ln", self.line(e.span)));
                o
            }
            Repeat(x, _) => vec![("k", s("repeat")), ("e", self.expr(x))],
            Yield(x, _) => vec![("k", s("yield")), ("e", self.expr(x))],
            UnsafeBinderCast(_, x, _) => vec![("k", s("ubcast")), ("e", self.expr(x))],
            Err(_) => vec![("k", s("err"))],
        };
        if never {
            o.push(("nv", J::Bool(true)));
        }
        J::Obj(o)
    }

    fn try_for(&mut self, e: &'tcx hir::Expr<'tcx>, scrut: &'tcx hir::Expr<'tcx>, arms: &'tcx [hir::Arm<'tcx>]) -> Option<J> {
        // match IntoIterator::into_iter(<iter>) { mut iter => loop { match Iterator::next(&mut iter) { None => break, Some(<pat>) => <body> } } }
        let hir::ExprKind::Call(_, [iter_e]) = scrut.kind else { return None };
        let [arm] = arms else { return None };
        let hir::ExprKind::Loop(blk, _, hir::LoopSource::ForLoop, _) = arm.body.kind else { return None };
        let inner = match (blk.stmts, blk.expr) {
            ([st], None) => match st.kind {
                hir::StmtKind::Expr(x) | hir::StmtKind::Semi(x) => x,
                _ => return None,
            },
            ([], Some(x)) => x,
            _ => return None,
        };
        let hir::ExprKind::Match(_, inner_arms, hir::MatchSource::ForLoopDesugar) = inner.kind else { return None };
        let mut found: Option<(&'tcx hir::Arm<'tcx>, &'tcx hir::Pat<'tcx>)> = None;
        for a in inner_arms.iter() {
            match a.pat.kind {
                hir::PatKind::TupleStruct(_, [p], _) => found = Some((a, p)),
                hir::PatKind::Struct(_, [f], _) => found = Some((a, f.pat)),
                _ => {}
            }
        }
        let (some_arm, pat) = found?;
        let ity = self.tr.expr_ty(iter_e);
        let old = self.cur;
        self.cur = iter_e.span.ctxt();
        let it = self.expr(iter_e);
        let p = self.pat(pat);
        let b = self.expr(some_arm.body);
        self.cur = old;
        Some(J::Obj(vec![
            ("k", s("for")),
            ("pat", p),
            ("iter", it),
            ("ity", s(ty_str(ity))),
            ("body", b),
            ("ln", self.line(e.span)),
        ]))
    }
}

//! ADT facts: definition shape, repr, attributes, layouts (concrete or probe instantiations).
use crate::json::{s, J};
use crate::{def_path, span_loc, ty_str};
use rustc_hir::def::DefKind;
use rustc_middle::ty::{self, GenericArg, Ty, TyCtxt, TypingEnv};

fn prim_list<'tcx>(tcx: TyCtxt<'tcx>) -> Vec<(&'static str, Ty<'tcx>)> {
    let t = &tcx.types;
    vec![
        ("u8", t.u8),
        ("i8", t.i8),
        ("u16", t.u16),
        ("i16", t.i16),
        ("u32", t.u32),
        ("i32", t.i32),
        ("u64", t.u64),
        ("i64", t.i64),
        ("u128", t.u128),
        ("i128", t.i128),
        ("usize", t.usize),
        ("isize", t.isize),
        ("f32", t.f32),
        ("f64", t.f64),
        ("bool", t.bool),
        ("char", t.char),
        ("()", t.unit),
    ]
}

pub fn layout_json<'tcx>(tcx: TyCtxt<'tcx>, ty: Ty<'tcx>) -> Option<J> {
    let env = TypingEnv::fully_monomorphized();
    let lay = tcx.layout_of(env.as_query_input(ty)).ok()?;
    let l = lay.layout;
    let mut o: Vec<(&'static str, J)> = vec![
        ("size", J::Int(l.size().bytes() as i128)),
        ("align", J::Int(l.align().abi.bytes() as i128)),
    ];
    let fields = l.fields();
    let mut offs = Vec::new();
    match fields {
        rustc_abi::FieldsShape::Arbitrary { .. } => {
            for i in 0..fields.count() {
                offs.push(J::Int(fields.offset(i).bytes() as i128));
            }
        }
        rustc_abi::FieldsShape::Union(n) => {
            for _ in 0..n.get() {
                offs.push(J::Int(0));
            }
            o.push(("union", J::Bool(true)));
        }
        _ => {}
    }
    o.push(("offsets", J::Arr(offs)));
    // field sizes/aligns in declaration order (structs/unions only)
    if let ty::Adt(adt, args) = ty.kind() {
        if adt.is_struct() || adt.is_union() {
            let mut fl = Vec::new();
            for f in adt.non_enum_variant().fields.iter() {
                let fty = f.ty(tcx, args);
                let fty = tcx.normalize_erasing_regions(env, rustc_middle::ty::Unnormalized::new_wip(fty));
                let sub = tcx.layout_of(env.as_query_input(fty)).ok();
                fl.push(J::Obj(vec![
                    ("name", s(f.name.to_string())),
                    ("ty", s(ty_str(fty))),
                    ("size", sub.map(|x| J::Int(x.size.bytes() as i128)).unwrap_or(J::Null)),
                    ("align", sub.map(|x| J::Int(x.align.abi.bytes() as i128)).unwrap_or(J::Null)),
                ]));
            }
            o.push(("fields", J::Arr(fl)));
        }
    }
    Some(J::Obj(o))
}

pub fn dump_prim_layouts<'tcx>(tcx: TyCtxt<'tcx>) -> J {
    let mut v = Vec::new();
    for (n, t) in prim_list(tcx) {
        if let Some(l) = layout_json(tcx, t) {
            v.push(J::Obj(vec![("name", s(n)), ("layout", l)]));
        }
    }
    // pointer
    let p = Ty::new_imm_ptr(tcx, tcx.types.u8);
    if let Some(l) = layout_json(tcx, p) {
        v.push(J::Obj(vec![("name", s("*const u8")), ("layout", l)]));
    }
    J::Arr(v)
}

pub fn dump_adts<'tcx>(tcx: TyCtxt<'tcx>, crate_name: &str) -> J {
    let mut out = Vec::new();
    let probe_generic = crate_name == "diplomat_runtime";
    for ldid in tcx.hir_crate_items(()).definitions() {
        let did = ldid.to_def_id();
        let dk = tcx.def_kind(did);
        match dk {
            DefKind::Struct | DefKind::Enum | DefKind::Union => {}
            DefKind::TyAlias => {
                let t = tcx.type_of(did).instantiate_identity().skip_norm_wip();
                out.push(J::Obj(vec![
                    ("path", s(def_path(tcx, did))),
                    ("kind", s("alias")),
                    ("ty", s(ty_str(t))),
                ]));
                continue;
            }
            _ => continue,
        }
        let adt = tcx.adt_def(did);
        let (file, line) = span_loc(tcx, tcx.def_span(did));
        let repr = adt.repr();
        let generics = tcx.generics_of(did);
        let mut gparams = Vec::new();
        for p in generics.own_params.iter() {
            gparams.push(J::Obj(vec![
                ("name", s(p.name.to_string())),
                ("kind", s(match p.kind {
                    ty::GenericParamDefKind::Lifetime => "lifetime",
                    ty::GenericParamDefKind::Type { .. } => "type",
                    ty::GenericParamDefKind::Const { .. } => "const",
                })),
            ]));
        }
        let mut variants = Vec::new();
        let discrs: Vec<i128> = if adt.is_enum() {
            adt.discriminants(tcx).map(|(_, d)| {
                // sign-extend according to the discriminant type
                let size = rustc_abi::Integer::from_attr(&tcx, adt.repr().discr_type()).size();
                if adt.repr().discr_type().is_signed() { size.sign_extend(d.val) } else { d.val as i128 }
            }).collect()
        } else {
            Vec::new()
        };
        for (i, v) in adt.variants().iter().enumerate() {
            let mut fields = Vec::new();
            for f in v.fields.iter() {
                let fty = tcx.type_of(f.did).instantiate_identity().skip_norm_wip();
                fields.push(J::Obj(vec![
                    ("name", s(f.name.to_string())),
                    ("ty", s(ty_str(fty))),
                    ("vis", s(format!("{:?}", f.vis))),
                ]));
            }
            variants.push(J::Obj(vec![
                ("name", s(v.name.to_string())),
                ("discr", discrs.get(i).map(|d| J::Int(*d)).unwrap_or(J::Null)),
                ("ctor", s(format!("{:?}", v.ctor_kind()))),
                ("fields", J::Arr(fields)),
            ]));
        }
        let mut attrs = Vec::new();
        let sm = tcx.sess.source_map();
        for a in tcx.hir_attrs(tcx.local_def_id_to_hir_id(ldid)) {
            if let rustc_hir::Attribute::Unparsed(item) = a {
                if let Ok(sn) = sm.span_to_snippet(item.span) {
                    attrs.push(s(sn));
                }
            }
        }
        let mut o: Vec<(&'static str, J)> = vec![
            ("path", s(def_path(tcx, did))),
            ("kind", s(match dk { DefKind::Struct => "struct", DefKind::Enum => "enum", _ => "union" })),
            ("file", s(file)),
            ("line", J::Int(line as i128)),
            ("repr_c", J::Bool(repr.c())),
            ("repr_transparent", J::Bool(repr.transparent())),
            ("repr_int", repr.int.map(|i| s(format!("{:?}", i))).unwrap_or(J::Null)),
            ("repr_packed", J::Bool(repr.packed())),
            ("non_exhaustive", J::Bool(adt.is_variant_list_non_exhaustive())),
            ("has_dtor", J::Bool(adt.has_dtor(tcx))),
            ("generics", J::Arr(gparams)),
            ("variants", J::Arr(variants)),
            ("attrs", J::Arr(attrs)),
        ];
        if let Some(m) = crate::outer_macro(tcx.def_span(did)) {
            o.push(("exp", s(m)));
        }
        // layouts
        let n_ty = generics.own_params.iter().filter(|p| matches!(p.kind, ty::GenericParamDefKind::Type { .. })).count();
        let n_const = generics.own_params.iter().filter(|p| matches!(p.kind, ty::GenericParamDefKind::Const { .. })).count();
        let mut layouts = Vec::new();
        if n_const == 0 && (n_ty == 0 || (probe_generic && n_ty <= 2)) {
            let prims = prim_list(tcx);
            let combos: Vec<Vec<usize>> = match n_ty {
                0 => vec![vec![]],
                1 => (0..prims.len()).map(|i| vec![i]).collect(),
                _ => {
                    let mut c = Vec::new();
                    for i in 0..prims.len() {
                        for j in 0..prims.len() {
                            c.push(vec![i, j]);
                        }
                    }
                    c
                }
            };
            for combo in combos {
                let mut k = 0;
                let mut names = Vec::new();
                let args: Vec<GenericArg<'tcx>> = generics
                    .own_params
                    .iter()
                    .map(|p| match p.kind {
                        ty::GenericParamDefKind::Lifetime => tcx.lifetimes.re_static.into(),
                        ty::GenericParamDefKind::Type { .. } => {
                            let (n, t) = prims[combo[k]];
                            k += 1;
                            names.push(n);
                            t.into()
                        }
                        ty::GenericParamDefKind::Const { .. } => unreachable!(),
                    })
                    .collect();
                let ty = Ty::new_adt(tcx, adt, tcx.mk_args(&args));
                let r = std::panic::catch_unwind(std::panic::AssertUnwindSafe(|| layout_json(tcx, ty)));
                if let Ok(Some(l)) = r {
                    layouts.push(J::Obj(vec![
                        ("args", J::Arr(names.into_iter().map(s).collect())),
                        ("ty", s(ty_str(ty))),
                        ("layout", l),
                    ]));
                }
            }
        }
        o.push(("layouts", J::Arr(layouts)));
        out.push(J::Obj(o));
    }
    J::Arr(out)
}

#!/bin/bash
# Build the fact extractor and prime the dependency cache (offline).
set -e
cd "$(dirname "$0")"
export CARGO_NET_OFFLINE=true
(cd engines/dipfacts && cargo build --offline --release 2>&1 | tail -2)
python3 - <<'PY'
import sys
sys.path.insert(0, "engines/rules")
import common
f = common.ensure_facts()
print("facts:", f.dir)
PY

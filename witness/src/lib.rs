//! Compile-fail witnesses for the type-level clauses of C03, C12 and C16.
//!
//! Every witness `wN` is a program that would violate the clause if it compiled; rustc must reject it with the
//! stated error code.  Every witness has a twin `wN_twin` that differs only by the offending line and must compile,
//! so that a witness "failing" for an unrelated reason (moved path, renamed method) is noticed.
//! Run by `./check <id> thorough` through `cargo +nightly test --doc` (error codes are only checked on nightly).
//! The crate names `diplomat_runtime` exactly as an external user would.

pub mod c12 {
    //! C12: the bounds (`cap`, `len`), the sticky flag and the callbacks of a `DiplomatWrite` can only be written by
    //! the runtime itself; safe foreign-facing Rust cannot forge a writer or widen its capacity.

    /// Safe code cannot widen the capacity.
    /// ```compile_fail,E0616
    /// fn f(w: &mut diplomat_runtime::DiplomatWrite) {
    ///     use core::fmt::Write;
    ///     w.cap = usize::MAX;
    ///     let _ = w.write_str("x");
    /// }
    /// ```
    pub struct W1;
    /// ```
    /// fn f(w: &mut diplomat_runtime::DiplomatWrite) {
    ///     use core::fmt::Write;
    ///     let _ = w.write_str("x");
    /// }
    /// ```
    pub struct W1Twin;

    /// Safe code cannot clear the sticky failure flag.
    /// ```compile_fail,E0616
    /// fn f(w: &mut diplomat_runtime::DiplomatWrite) {
    ///     w.grow_failed = false;
    ///     w.flush();
    /// }
    /// ```
    pub struct W2;
    /// ```
    /// fn f(w: &mut diplomat_runtime::DiplomatWrite) {
    ///     w.flush();
    /// }
    /// ```
    pub struct W2Twin;

    /// Safe code cannot move the length past what was copied.
    /// ```compile_fail,E0616
    /// fn f(w: &mut diplomat_runtime::DiplomatWrite) {
    ///     w.len += 1;
    ///     w.flush();
    /// }
    /// ```
    pub struct W3;

    /// A writer cannot be forged with a struct literal (all fields private).
    /// ```compile_fail,E0451
    /// extern "C" fn fl(_: *mut diplomat_runtime::DiplomatWrite) {}
    /// extern "C" fn gr(_: *mut diplomat_runtime::DiplomatWrite, _: usize) -> bool { true }
    /// fn f(p: *mut u8) -> diplomat_runtime::DiplomatWrite {
    ///     diplomat_runtime::DiplomatWrite { context: core::ptr::null_mut(), buf: p, len: 0, cap: 1 << 20, grow_failed: false, flush: fl, grow: gr }
    /// }
    /// ```
    pub struct W4;
    /// ```
    /// fn f() -> *mut diplomat_runtime::DiplomatWrite {
    ///     diplomat_runtime::diplomat_buffer_write_create(16)
    /// }
    /// ```
    pub struct W4Twin;
}

pub mod c16 {
    //! C16: a view can only be built from a real Rust slice (or by the foreign side through the C ABI); safe code cannot
    //! pair an arbitrary pointer with a length, cannot outlive the borrow, and cannot duplicate a mutable view.

    /// (ptr, len) cannot be forged.
    /// ```compile_fail,E0451
    /// fn f() -> diplomat_runtime::DiplomatSlice<'static, u8> {
    ///     diplomat_runtime::DiplomatSlice { ptr: core::ptr::null(), len: 5, phantom: core::marker::PhantomData }
    /// }
    /// ```
    pub struct W1;
    /// ```
    /// fn f(s: &'static [u8]) -> diplomat_runtime::DiplomatSlice<'static, u8> {
    ///     s.into()
    /// }
    /// ```
    pub struct W1Twin;

    /// The length of an existing view cannot be changed.
    /// ```compile_fail,E0616
    /// fn f(mut s: diplomat_runtime::DiplomatSlice<'_, u8>) -> usize {
    ///     s.len = 100;
    ///     s.iter().count()
    /// }
    /// ```
    pub struct W2;
    /// ```
    /// fn f(s: diplomat_runtime::DiplomatSlice<'_, u8>) -> usize {
    ///     s.iter().count()
    /// }
    /// ```
    pub struct W2Twin;

    /// The Rust slice handed back is tied to the borrow the view was made from.
    /// ```compile_fail,E0597
    /// fn f() -> usize {
    ///     let r: &[u8];
    ///     {
    ///         let v = vec![1u8, 2, 3];
    ///         let s: diplomat_runtime::DiplomatSlice<'_, u8> = v.as_slice().into();
    ///         r = s.into();
    ///     }
    ///     r.len()
    /// }
    /// ```
    pub struct W3;
    /// ```
    /// fn f() -> usize {
    ///     let r: &[u8];
    ///     let v = vec![1u8, 2, 3];
    ///     {
    ///         let s: diplomat_runtime::DiplomatSlice<'_, u8> = v.as_slice().into();
    ///         r = s.into();
    ///     }
    ///     r.len()
    /// }
    /// ```
    pub struct W3Twin;

    /// Same for string views.
    /// ```compile_fail,E0597
    /// fn f() -> usize {
    ///     let r: &str;
    ///     {
    ///         let v = String::from("abc");
    ///         let s: diplomat_runtime::DiplomatUtf8StrSlice<'_> = v.as_str().into();
    ///         r = s.into();
    ///     }
    ///     r.len()
    /// }
    /// ```
    pub struct W4;
    /// ```
    /// fn f() -> usize {
    ///     let r: &str;
    ///     let v = String::from("abc");
    ///     {
    ///         let s: diplomat_runtime::DiplomatUtf8StrSlice<'_> = v.as_str().into();
    ///         r = s.into();
    ///     }
    ///     r.len()
    /// }
    /// ```
    pub struct W4Twin;

    /// A mutable view is not duplicable (two `&mut [T]` to one buffer).
    /// ```compile_fail,E0382
    /// fn f(s: diplomat_runtime::DiplomatSliceMut<'_, u8>) {
    ///     let a: &mut [u8] = s.into();
    ///     let b: &mut [u8] = s.into();
    ///     a[0] = b[0];
    /// }
    /// ```
    pub struct W5;
    /// ```
    /// fn f(s: diplomat_runtime::DiplomatSlice<'_, u8>) -> u8 {
    ///     let a: &[u8] = s.into();
    ///     let b: &[u8] = s.into();
    ///     a[0] + b[0]
    /// }
    /// ```
    pub struct W5Twin;

    /// The UTF-8 view's inner byte view cannot be replaced by unchecked bytes.
    /// ```compile_fail,E0423
    /// fn f(b: &'static [u8]) -> diplomat_runtime::DiplomatUtf8StrSlice<'static> {
    ///     diplomat_runtime::DiplomatUtf8StrSlice(b.into())
    /// }
    /// ```
    pub struct W6;
    /// ```
    /// fn f(b: &'static str) -> diplomat_runtime::DiplomatUtf8StrSlice<'static> {
    ///     b.into()
    /// }
    /// ```
    pub struct W6Twin;
}

pub mod c03 {
    //! C03: ownership moves through the conversions; a value converted back to Rust cannot also be kept, an owned slice
    //! cannot be duplicated, and the payload union cannot be reached around the flag.

    /// Converting a `DiplomatResult` back consumes it.
    /// ```compile_fail,E0382
    /// fn f(d: diplomat_runtime::DiplomatResult<Box<u8>, ()>) -> (Result<Box<u8>, ()>, diplomat_runtime::DiplomatResult<Box<u8>, ()>) {
    ///     let r: Result<Box<u8>, ()> = d.into();
    ///     (r, d)
    /// }
    /// ```
    pub struct W1;
    /// ```
    /// fn f(d: diplomat_runtime::DiplomatResult<Box<u8>, ()>) -> Result<Box<u8>, ()> {
    ///     let r: Result<Box<u8>, ()> = d.into();
    ///     r
    /// }
    /// ```
    pub struct W1Twin;

    /// An owned slice is not `Clone` (its buffer would be freed twice).
    /// ```compile_fail,E0277
    /// fn need_clone<T: Clone>(_: &T) {}
    /// fn f(s: &diplomat_runtime::DiplomatOwnedSlice<u8>) { need_clone(s) }
    /// ```
    pub struct W2;
    /// ```
    /// fn need_clone<T: Clone>(_: &T) {}
    /// fn f(s: &diplomat_runtime::DiplomatSlice<'_, u8>) { need_clone(s) }
    /// ```
    pub struct W2Twin;

    /// Converting an owned slice back to a `Box` consumes it.
    /// ```compile_fail,E0382
    /// fn f(s: diplomat_runtime::DiplomatOwnedSlice<u8>) -> usize {
    ///     let b: Box<[u8]> = s.into();
    ///     b.len() + s.len()
    /// }
    /// ```
    pub struct W3;
    /// ```
    /// fn f(s: diplomat_runtime::DiplomatOwnedSlice<u8>) -> usize {
    ///     let n = s.len();
    ///     let b: Box<[u8]> = s.into();
    ///     b.len() + n
    /// }
    /// ```
    pub struct W3Twin;

    /// The payload union is private: safe code cannot read the inactive arm.
    /// ```compile_fail,E0616
    /// fn f(d: &diplomat_runtime::DiplomatResult<u8, u16>) -> bool {
    ///     let _v = &d.value;
    ///     d.is_ok
    /// }
    /// ```
    pub struct W4;
    /// ```
    /// fn f(d: &diplomat_runtime::DiplomatResult<u8, u16>) -> bool {
    ///     d.is_ok
    /// }
    /// ```
    pub struct W4Twin;

    /// An owned string view is not `Copy`.
    /// ```compile_fail,E0382
    /// fn f(s: diplomat_runtime::DiplomatOwnedUTF8StrSlice) -> usize {
    ///     let b: Box<str> = s.into();
    ///     let c: Box<str> = s.into();
    ///     b.len() + c.len()
    /// }
    /// ```
    pub struct W5;
    /// ```
    /// fn f(s: diplomat_runtime::DiplomatOwnedUTF8StrSlice) -> usize {
    ///     let b: Box<str> = s.into();
    ///     b.len()
    /// }
    /// ```
    pub struct W5Twin;
}
